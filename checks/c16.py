"""C16 - the pyscf interface writes the molecule's Hamiltonian and a consistent trial."""
import contextlib
import io
import os
import shutil
import tempfile

import numpy as np

from vlib.monitor import ev, judge

ID = "C16"
LEVEL_TEXT = ("prep_afqmc and the set-up routine are executed on generated molecules / mean-field objects in a scratch directory; what they wrote "
              "and built is compared with pyscf's own numbers (mean-field energy, FCI / CASCI energy of the molecule, CCSD / UCCSD total energy) "
              "including the linear convergence in the Cholesky threshold. Held = on all generated molecules / options.")
LEVEL_NOTE = "trusted: pyscf (SCF, FCI, CASCI, CCSD energies), h5py; tolerance 30 x chol_cut (+ 5e-6 for the CI kinds)"
TECHNIQUE = "runtime monitoring: end-to-end differential oracle against pyscf on files written and objects built by the real interface"
RULE = ("cases = molecule (H2, H4 chain / ring, LiH, OH radical, jittered geometries) x basis (sto-3g, 6-31g) x mean field (RHF, ROHF, UHF) x frozen "
        "core x density fitting x custom orthonormal basis_coeff x Cholesky threshold x trial / walker_type option; lattice models through the "
        "custom-integrals path; CCSD / UCCSD amplitude cases; non-trivial = interacting problem with >= 2 orbitals and the check compared at "
        "least the trial energy with pyscf's mean-field energy")
MIN_NONTRIVIAL = {"quick": 10, "thorough": 80}
TIMEOUT = {"quick": 3000, "thorough": 12000}
ASSUMPTIONS = ["UHF / UCCSD with frozen core is outside the statement", "pyscf SCF converged to 1e-10 (checked, else the case is skipped and counted)",
               "custom basis_coeff keeps the frozen core orbitals (only the active orbitals are rotated)"]
REQUIRED_COUNTERS = {"prep_calls": 10, "mf_energy_checks": 8, "fci_checks": 3, "cc_checks": 1}


def gen_cases(tier, seed):
    rng = np.random.default_rng([seed, 16])
    q = tier == "quick"
    cases = []

    def add(**kw):
        kw.setdefault("s", int(rng.integers(1 << 30)))
        kw.setdefault("chol_cut", 1e-6)
        kw["group"] = "g%d" % len(cases)
        kw["cost"] = 8
        cases.append(kw)

    add(mol="h2", basis="6-31g", mf="rhf", trial="rhf", wt="rhf", fci=True)
    add(mol="h4", basis="sto-3g", mf="rhf", trial="rhf", wt="uhf", fci=True)
    add(mol="h4", basis="sto-3g", mf="uhf", trial="uhf", wt="uhf", fci=True)
    add(mol="lih", basis="sto-3g", mf="rhf", frozen=1, trial="rhf", wt="rhf", fci=True)
    add(mol="lih", basis="sto-3g", mf="rhf", frozen=1, custom_basis=True, trial="rhf", wt="rhf", fci=True)
    add(mol="oh", basis="sto-3g", mf="rohf", trial="uhf", wt="uhf", fci=True)
    add(mol="oh", basis="sto-3g", mf="rohf", frozen=1, trial="uhf", wt="uhf", fci=True)
    add(mol="oh", basis="sto-3g", mf="rohf", frozen=1, custom_basis=True, trial="uhf", wt="uhf")
    add(mol="h4ring", basis="sto-3g", mf="rhf", custom_basis=True, trial="rhf", wt="rhf", fci=True)
    add(mol="h4", basis="sto-3g", mf="rhf", df=True, trial="rhf", wt="rhf", chol_cut=1e-8)
    add(mol="h4", basis="sto-3g", mf="rhf", df="dict-basis", trial="rhf", wt="rhf", chol_cut=1e-8)
    add(mol="h4ring", basis="sto-3g", mf="uhf", df="user-df", trial="uhf", wt="uhf", chol_cut=1e-8)
    add(mol="h4", basis="sto-3g", mf="rhf", cc=True, trial="cisd", wt="rhf")
    add(mol="lih", basis="sto-3g", mf="rhf", cc=True, frozen=1, trial="cisd", wt="rhf")
    add(mol="oh", basis="sto-3g", mf="uhf", cc=True, trial="ucisd", wt="uhf")
    add(mol="oh", basis="sto-3g", mf="uhf", cc=True, trial="ucisd", wt="uhf", stretch=1.85, chol_cut=1e-8)
    add(mol="h4", basis="sto-3g", mf="uhf", cc=True, trial="ucisd", wt="uhf", stretch=1.8, chol_cut=1e-8)
    add(mol="h4", basis="sto-3g", mf="rhf", cc=True, trial="cisd", wt="rhf", stretch=1.5, chol_cut=1e-8)
    add(mol="lih", basis="sto-3g", mf="rhf", trial="rhf", wt="rhf", fci=True, field=0.02, chol_cut=1e-8)
    add(mol="oh", basis="sto-3g", mf="rohf", trial="uhf", wt="uhf", fci=True, field=-0.015, chol_cut=1e-8)
    add(mol="h4", basis="sto-3g", mf="uhf", trial="uhf", wt="uhf", field=0.03, chol_cut=1e-8)
    add(mol="hubbard", lattice="chain4", u=4.0, mf="rhf", nelec=[2, 2], trial="rhf", wt="uhf", chol_cut=1e-8, fci=True)
    add(mol="hubbard", lattice="grid2x2", u=2.0, mf="uhf", nelec=[2, 1], trial="uhf", wt="uhf", chol_cut=1e-8, fci=True)
    add(mol="h4", basis="sto-3g", mf="rhf", trial="rhf", wt="rhf", ladder=True)
    add(mol="oh", basis="sto-3g", mf="rohf", trial="uhf", wt="uhf", ladder=True, fci=True)
    add(mol="lih", basis="sto-3g", mf="rhf", frozen=1, trial="rhf", wt="rhf", ladder=True)
    add(mol="lih", basis="sto-3g", mf="rhf", trial="rhf", wt="rhf", fci=True, sequence=[[0, False], [1, False], [1, True], [0, False]])
    add(mol="oh", basis="sto-3g", mf="rohf", trial="uhf", wt="uhf", fci=True, sequence=[[0, False], [1, False], [0, False]])
    if not q:
        for rep in range(220):
            mol = str(rng.choice(["h2", "h4", "h4ring", "lih", "oh"]))
            basis = str(rng.choice(["sto-3g", "sto-3g", "6-31g"])) if mol in ("h2", "h4", "lih") else "sto-3g"
            mf = "rohf" if mol == "oh" and rng.random() < 0.6 else ("uhf" if mol == "oh" or rng.random() < 0.3 else "rhf")
            frozen = 1 if (mol in ("lih", "oh") and mf != "uhf" and rng.random() < 0.5) else 0
            cc = bool(rng.random() < 0.25)
            trial = ("cisd" if mf == "rhf" else "ucisd") if cc else ("uhf" if mf != "rhf" else str(rng.choice(["rhf", "uhf"])))
            if cc and mf == "rohf":
                cc, trial = False, "uhf"
            wt = "uhf" if (mf != "rhf" or trial in ("uhf", "ucisd")) else str(rng.choice(["rhf", "uhf"]))
            if trial == "cisd":
                wt = "rhf"   # the hand-coded restricted CISD trial defines restricted-walker measurements only
            add(mol=mol, basis=basis, mf=mf, frozen=frozen, cc=cc, trial=trial, wt=wt, custom_basis=bool(rng.random() < 0.4 and not cc),
                field=(float(rng.normal() * 0.02) if (rng.random() < 0.2 and not frozen and mf != "uhf" and not cc) else None),
                stretch=(float(rng.uniform(1.3, 2.0)) if (mol in ("oh", "h4", "lih") and basis == "sto-3g" and rng.random() < 0.35) else None),
                # (density fitting only for H-only molecules: auxiliary bases for Li / O are not in the offline pyscf data)
                df=bool(rng.random() < 0.15 and not cc and not frozen and mol in ("h2", "h4", "h4ring")),
                chol_cut=float(rng.choice([1e-5, 1e-6, 1e-7, 1e-8])),
                fci=bool(basis == "sto-3g" or mol == "h2"))
        for rep in range(30):
            add(mol="hubbard", lattice=str(rng.choice(["chain4", "grid2x2", "chain3"])), u=float(rng.choice([1.0, 4.0, 8.0])), mf=str(rng.choice(["rhf", "uhf"])),
                nelec=[2, 2] if rng.random() < 0.5 else [2, 1], trial="uhf", wt="uhf", chol_cut=1e-8, fci=True)
    return cases


def _molecule(case, rng):
    from checks.c17 import _mol

    if case.get("stretch"):   # stretched bonds: sizeable T1 amplitudes / broken-symmetry UHF references
        from pyscf import gto

        f = float(case["stretch"])
        j = lambda: float(rng.normal() * 0.05)
        if case["mol"] == "oh":
            return gto.M(atom="O 0 0 0; H 0 0 %f" % (0.97 * f + j()), basis="sto-3g", spin=1, verbose=0)
        if case["mol"] == "h4":
            return gto.M(atom="; ".join("H 0 0 %f" % (i * 1.0 * f + j()) for i in range(4)), basis=case.get("basis", "sto-3g"), verbose=0)
        if case["mol"] == "lih":
            return gto.M(atom="Li 0 0 0; H 0 0 %f" % (1.6 * f + j()), basis="sto-3g", verbose=0)

    return _mol(case["mol"] + ("-631g" if case.get("basis") == "6-31g" and case["mol"] in ("h2", "h4") else ""), rng) if case.get("basis") != "6-31g" or case["mol"] in ("h2", "h4") else _mol_basis(case, rng)


def _mol_basis(case, rng):
    from pyscf import gto

    return gto.M(atom="Li 0 0 0; H 0 0 %f" % (1.6 + 0.05 * rng.normal()), basis="6-31g", verbose=0)


def _build_mf(case, rng):
    from pyscf import ao2mo, gto, scf

    from vlib import hubbard

    if case["mol"] == "hubbard":
        k = hubbard.lattice_h1(case["lattice"])
        n = k.shape[0]
        ne = tuple(case["nelec"])
        if case["mf"] == "rhf" and ne[0] != ne[1]:
            ne = (ne[0], ne[0])
        h2 = np.zeros((n, n, n, n))
        for i in range(n):
            h2[i, i, i, i] = case["u"]
        mol = gto.Mole()
        mol.nelectron = sum(ne)
        mol.incore_anyway = True
        mol.spin = abs(ne[0] - ne[1])
        mol.verbose = 0
        mol.build()
        mf = scf.RHF(mol) if case["mf"] == "rhf" else scf.UHF(mol)
        mf.get_hcore = lambda *a: k
        mf.get_ovlp = lambda *a: np.eye(n)
        mf._eri = ao2mo.restore(8, h2, n)
        mf.conv_tol = 1e-11
        if case["mf"] == "uhf":
            dm = mf.init_guess_by_1e()
            dm = dm + 0.3 * rng.normal(size=dm.shape)
            dm = (dm + dm.transpose(0, 2, 1)) / 2
            mf.kernel(dm)
        else:
            mf.kernel()
        integrals = {"h0": 0.0, "h1": k, "h2": ao2mo.restore(8, h2, n)}
        return mol, mf, integrals
    mol = _molecule(case, rng)
    mf = {"rhf": scf.RHF, "rohf": scf.ROHF, "uhf": scf.UHF}[case["mf"]](mol)
    if case.get("df"):
        if case.get("df") == "dict-basis":
            # basis given per element: pyscf then resolves the auxiliary basis itself and with_df.auxbasis stays None
            mol = mol.copy()
            mol.basis = {"H": mol.basis if isinstance(mol.basis, str) else "sto-3g"}
            mol.build()
            mf = {"rhf": scf.RHF, "rohf": scf.ROHF, "uhf": scf.UHF}[case["mf"]](mol)
            mf = mf.density_fit()
        elif case.get("df") == "user-df":
            from pyscf import df as pdf

            mf = mf.density_fit()
            mf.with_df = pdf.DF(mol)   # a user-made fitting object handed to the mean field (its auxbasis attribute stays None)
        else:
            mf = mf.density_fit()
    mf.conv_tol = 1e-11
    if case.get("field"):
        # a mean-field object with its own core Hamiltonian (static electric field along z, as pyscf users add it): the written one-body
        # integrals must be those of the object handed over
        with mol.with_common_orig((0.0, 0.0, 0.0)):
            dip = mol.intor_symmetric("int1e_r", comp=3)
        h_field = mf.get_hcore() + float(case["field"]) * dip[2]
        mf.get_hcore = lambda *a_, **k_: h_field
    if case.get("stretch") and case["mf"] == "uhf" and mol.spin == 0:
        dm = mf.get_init_guess()
        nao = dm.shape[-1]
        dm[0][: nao // 2] *= 1.3   # spin-symmetry breaking start
        dm[1][nao // 2:] *= 1.3
        dm = (dm + dm.transpose(0, 2, 1)) / 2
        mf.kernel(dm)
    else:
        mf.kernel()
    return mol, mf, None


def _exact_ground_energy(h1, eri, nmo, nelec, ecore):
    """lowest eigenvalue in the (n_up, n_dn) sector: dense diagonalisation of pyscf's determinant-space Hamiltonian when the sector is small
    (a Davidson iteration started in an arbitrary orbital basis can stop on an excited state at stretched geometries), else Davidson with
    several roots"""
    from math import comb

    from pyscf import fci

    dim = comb(nmo, nelec[0]) * comb(nmo, nelec[1])
    if dim <= 3000:
        _, hmat = fci.direct_spin1.pspace(h1, eri, nmo, nelec, np=dim)
        return float(np.linalg.eigvalsh(hmat)[0] + ecore)
    solver = fci.direct_spin1.FCI()
    solver.conv_tol = 1e-11
    solver.nroots = 4
    es, _ = solver.kernel(h1, eri, nmo, nelec, ecore=ecore)
    return float(np.min(es))


def _amplitude_residual(mycc, amp):
    """CISD coefficients of exp(T1 + T2)|0> up to doubles, written out element by element: c1 = t1,
    same spin c(ij->ab) = t2(ijab) + t1(ia) t1(jb) - t1(ib) t1(ja), opposite spin c(iJ->aB) = t2(iJaB) + t1(ia) t1(JB);
    the files index doubles as [i, a, j, b]"""
    worst = 0.0
    if isinstance(mycc.t1, (tuple, list)):
        t1a, t1b = np.asarray(mycc.t1[0]), np.asarray(mycc.t1[1])
        t2aa, t2ab, t2bb = (np.asarray(x) for x in mycc.t2)
        worst = max(worst, float(np.max(np.abs(amp["ci1a"] - t1a), initial=0.0)), float(np.max(np.abs(amp["ci1b"] - t1b), initial=0.0)))
        for name, t1, t2 in (("ci2aa", t1a, t2aa), ("ci2bb", t1b, t2bb)):
            no, nv = t1.shape
            ref = np.zeros((no, nv, no, nv))
            for i in range(no):
                for j in range(no):
                    for a in range(nv):
                        for b in range(nv):
                            ref[i, a, j, b] = t2[i, j, a, b] + t1[i, a] * t1[j, b] - t1[i, b] * t1[j, a]
            worst = max(worst, float(np.max(np.abs(amp[name] - ref), initial=0.0)))
        noa, nva = t1a.shape
        nob, nvb = t1b.shape
        ref = np.zeros((noa, nva, nob, nvb))
        for i in range(noa):
            for j in range(nob):
                for a in range(nva):
                    for b in range(nvb):
                        ref[i, a, j, b] = t2ab[i, j, a, b] + t1a[i, a] * t1b[j, b]
        worst = max(worst, float(np.max(np.abs(amp["ci2ab"] - ref), initial=0.0)))
    else:
        t1, t2 = np.asarray(mycc.t1), np.asarray(mycc.t2)
        no, nv = t1.shape
        ref = np.zeros((no, nv, no, nv))
        for i in range(no):
            for j in range(no):
                for a in range(nv):
                    for b in range(nv):
                        ref[i, a, j, b] = t2[i, j, a, b] + t1[i, a] * t1[j, b]
        worst = max(float(np.max(np.abs(amp["ci1"] - t1), initial=0.0)), float(np.max(np.abs(amp["ci2"] - ref), initial=0.0)))
    return worst


def run_case(case):
    import h5py
    import jax.numpy as jnp
    from pyscf import cc as pcc
    from pyscf import fci, mcscf

    from ad_afqmc import pyscf_interface

    rng = np.random.default_rng(case["s"])
    events = []
    cnt = {"prep_calls": 0, "mf_energy_checks": 0, "fci_checks": 0, "cc_checks": 0, "skipped_unconverged": 0}
    try:
        mol, mf, integrals = case.pop("_prebuilt") if "_prebuilt" in case else _build_mf(case, rng)
    except Exception as exc:   # pyscf itself failed to produce the mean-field object (not the code under test)
        cnt["skipped_unconverged"] = 1
        return {"events": [ev("scf/pyscf-failed", None, key="C16/skip-pyscf-failed", exc=repr(exc)[:200])], "nontrivial": False, "counters": cnt}
    if not mf.converged:
        cnt["skipped_unconverged"] = 1
        return {"events": [ev("scf/not-converged", None, key="C16/skip-scf")], "nontrivial": False, "counters": cnt}
    if case.get("sequence"):
        # several preparations of the same molecule / threshold in ONE process: each must be as good as a first call
        out_events, last = [], None
        for si, (fz, use_cc) in enumerate(case["sequence"]):
            sub = dict(case)
            sub.pop("sequence")
            sub["frozen"] = fz
            sub["cc"] = use_cc
            sub["trial"] = ("cisd" if case["mf"] == "rhf" else "ucisd") if use_cc else case["trial"]
            sub["_prebuilt"] = (mol, mf, integrals)
            r = run_case(sub)
            for e in r["events"]:
                e["key"] = e["key"] + "/call-%d-in-process" % (si + 1 if si < 1 else 2)
                out_events.append(e)
            for k_, v_ in r["counters"].items():
                cnt[k_] = cnt.get(k_, 0) + v_
            last = r
        return {"events": out_events, "nontrivial": True, "sample": dict(last.get("sample") or {}, sequence=case["sequence"]), "counters": cnt}
    frozen = int(case.get("frozen", 0))
    key = "C16/%s/%s%s%s%s" % (case["mol"] if case["mol"] != "hubbard" else "custom-integrals", case["mf"], "/frozen" if frozen else "",
                               "/custom-basis" if case.get("custom_basis") else "", "/df" if case.get("df") else "")
    obj = mf
    mycc = None
    if case.get("cc"):
        mycc = (pcc.UCCSD(mf) if case["mf"] == "uhf" else pcc.CCSD(mf))
        mycc.conv_tol = 1e-10
        mycc.conv_tol_normt = 1e-8
        if frozen:
            mycc.frozen = frozen
        mycc.verbose = 0
        mycc.max_cycle = 300
        mycc.kernel()
        # the statement is about the amplitudes handed over: E_CC[t1, t2] = E_HF + <0|H (T1 + T2 + T1^2/2)|0> is defined (and evaluated by
        # pyscf's own energy functional) for any amplitudes, so a CC iteration that stopped short of its threshold is still a valid case
        e_cc_ref = float(mf.e_tot + mycc.energy(mycc.t1, mycc.t2))
        if not mycc.converged:
            cnt["cc_not_converged_energy_functional_used"] = 1
        if not np.isfinite(e_cc_ref) or abs(e_cc_ref - mf.e_tot) > 5.0:
            cnt["skipped_unconverged"] = 1
            return {"events": [ev("cc/diverged", None, key="C16/skip-cc")], "nontrivial": False, "counters": cnt}
        obj = mycc
    basis_coeff = None
    if case.get("custom_basis"):
        C = mf.mo_coeff if case["mf"] != "uhf" else mf.mo_coeff[0]
        n = C.shape[1]
        q, _ = np.linalg.qr(rng.normal(size=(n - frozen, n - frozen)))
        U = np.eye(n)
        U[frozen:, frozen:] = q
        basis_coeff = C @ U  # orthonormal (in the AO metric) basis with the core orbitals kept
    chol_cuts = [1e-4, 1e-6, 1e-8, 1e-10] if case.get("ladder") else [case["chol_cut"]]
    ladder = []
    sample = {}
    cwd0 = os.getcwd()
    for chol_cut in chol_cuts:
        tmp = tempfile.mkdtemp(prefix="verif_c16_")
        os.chdir(tmp)
        try:
            buf = io.StringIO()
            with contextlib.redirect_stdout(buf):
                kw = {"chol_cut": chol_cut}
                if basis_coeff is not None:
                    kw["basis_coeff"] = basis_coeff
                if frozen and not case.get("cc"):
                    kw["norb_frozen"] = frozen
                if integrals is not None:
                    kw["integrals"] = integrals
                    kw["basis_coeff"] = np.eye(integrals["h1"].shape[0])
                pyscf_interface.prep_afqmc(obj, **kw)
                cnt["prep_calls"] += 1
                from ad_afqmc import mpi_jax

                options = {"trial": case["trial"], "walker_type": case["wt"], "n_walkers": 4, "seed": 7}
                ham_data, ham, prop, trial, wave_data, sampler, observable, options, MPI = mpi_jax._prep_afqmc(options)
            if mycc is not None:
                amp = dict(np.load("amplitudes.npz"))
                events.append(judge("trial/written-ci-amplitudes-are-t1-t2-cluster-expansion", _amplitude_residual(mycc, amp), 1e-12,
                                    key + "/ci-amplitudes/" + case["trial"], blocks=sorted(amp.keys())))
                cnt["amplitude_checks"] = cnt.get("amplitude_checks", 0) + 1
            # the same set-up through the files a launched job reads: options.bin (pickled options) and observable.h5
            import pickle

            opt_in = {"trial": case["trial"], "walker_type": case["wt"], "n_walkers": 4, "seed": 7}
            with open("options.bin", "wb") as fo:
                pickle.dump(dict(opt_in), fo)
            op_w = rng.normal(size=(trial.norb, trial.norb))
            op_w = (op_w + op_w.T) / 2
            const_w = float(rng.normal())
            with h5py.File("observable.h5", "w") as fo:
                fo["constant"] = np.array([const_w])
                fo["op"] = op_w.flatten()
            with contextlib.redirect_stdout(io.StringIO()):
                hd2, ham2, prop2, trial2, wd2, smp2, obs2, opt2, _ = mpi_jax._prep_afqmc()
            os.remove("observable.h5")
            os.remove("options.bin")
            same = (type(trial2) is type(trial) and type(prop2) is type(prop) and all(opt2.get(k_) == options.get(k_) for k_ in options if k_ != "seed")
                    and float(np.max(np.abs(np.asarray(hd2["h1"]) - np.asarray(ham_data["h1"])))) == 0.0
                    and float(np.max(np.abs(np.asarray(hd2["chol"]) - np.asarray(ham_data["chol"])))) == 0.0)
            events.append(ev("setup/options-file-equals-explicit-options", bool(same), key=key + "/options-bin", trial=type(trial2).__name__, prop=type(prop2).__name__))
            ok_obs = obs2 is not None and abs(float(obs2[1]) - const_w) < 1e-14
            if ok_obs:
                o_ = np.asarray(obs2[0])
                blocks = [o_] if o_.ndim == 2 else [o_[0], o_[1]]
                ok_obs = (o_.ndim == (3 if case["wt"] == "uhf" else 2)) and all(np.max(np.abs(b_ - op_w)) < 1e-14 for b_ in blocks)
            events.append(ev("setup/observable-file-read-back", bool(ok_obs), key=key + "/observable-h5", walker_type=case["wt"]))
            cnt["setup_file_checks"] = cnt.get("setup_file_checks", 0) + 1
            with h5py.File("FCIDUMP_chol", "r") as fh:
                nelec_w, nmo, ms, nchol = [int(x) for x in fh["header"]]
                h0 = float(np.array(fh["energy_core"]))
                h1 = np.array(fh["hcore"]).reshape(nmo, nmo)
                chol = np.array(fh["chol"]).reshape(-1, nmo, nmo)
            na_m, nb_m = mol.nelec
            events.append(ev("files/header-consistent", bool(nelec_w == na_m + nb_m - 2 * frozen and ms == na_m - nb_m and nchol == chol.shape[0]),
                             key=key + "/header", header=[nelec_w, nmo, ms, nchol], mol_nelec=[na_m, nb_m], frozen=frozen))
            ham_data = ham.build_measurement_intermediates(ham_data, trial, wave_data)
            ham_data = ham.build_propagation_intermediates(ham_data, prop, trial, wave_data)
            pd = prop.init_prop_data(trial, wave_data, ham_data)
            e_est = float(pd["e_estimate"])
        finally:
            os.chdir(cwd0)
            shutil.rmtree(tmp, ignore_errors=True)
        tol = 30 * chol_cut + (5e-6 if case["trial"] in ("cisd", "ucisd") else 1e-9)
        if mycc is not None:
            events.append(judge("trial/cisd-mixed-energy-equals-ccsd", abs(e_est - e_cc_ref), tol, key + "/ccsd-energy/" + case["trial"], lib=e_est, pyscf=e_cc_ref,
                                converged=bool(mycc.converged), t1_max=float(max(np.max(np.abs(np.asarray(x)), initial=0.0) for x in (mycc.t1 if isinstance(mycc.t1, (tuple, list)) else [mycc.t1])))))
            cnt["cc_checks"] += 1
            sample.update({"e_estimate": e_est, "e_ccsd": e_cc_ref})
        else:
            events.append(judge("trial/energy-equals-mean-field", abs(e_est - mf.e_tot), tol, key + "/mf-energy/%s-%s" % (case["trial"], case["wt"]),
                                lib=e_est, pyscf=float(mf.e_tot), chol_cut=chol_cut))
            cnt["mf_energy_checks"] += 1
            sample.update({"e_estimate": e_est, "e_mf": float(mf.e_tot)})
            ladder.append(abs(e_est - mf.e_tot))
        # exact ground state of the written Hamiltonian vs pyscf's FCI / CASCI of the molecule
        if case.get("fci") and not case.get("df") and chol_cut == chol_cuts[-1] and nmo <= 11:
            na_w = (nelec_w + abs(ms)) // 2
            nb_w = (nelec_w - abs(ms)) // 2
            eri = np.einsum("gpq,grs->pqrs", chol, chol)
            e_w = _exact_ground_energy(h1, eri, nmo, (na_w, nb_w), h0)
            if integrals is not None:
                n = integrals["h1"].shape[0]
                from pyscf import ao2mo

                e_ref, _ = fci.direct_spin1.FCI().kernel(integrals["h1"], ao2mo.restore(1, integrals["h2"], n), n, (na_w, nb_w), ecore=0.0)
            elif frozen:
                if case["mf"] == "uhf":
                    e_ref = None
                else:
                    mc = mcscf.CASCI(mf, mol.nao - frozen, mol.nelectron - 2 * frozen)
                    mc.verbose = 0
                    mc.fcisolver.conv_tol = 1e-11
                    e_ref = mc.kernel()[0]
            else:
                if case["mf"] == "uhf":
                    # FCI is basis independent: use an RHF/ROHF reference of the same molecule for pyscf's FCI
                    from pyscf import scf

                    mref = scf.ROHF(mol) if mol.spin else scf.RHF(mol)
                    mref.verbose = 0
                    mref.kernel()
                    e_ref = fci.FCI(mref).kernel()[0]
                else:
                    mfx = mf.undo_df() if case.get("df") and hasattr(mf, "undo_df") else mf
                    e_ref = fci.FCI(mfx).kernel()[0] if not case.get("df") else None
            if e_ref is not None:
                events.append(judge("files/fci-of-written-hamiltonian-equals-molecular-fci", abs(e_w - e_ref), 30 * chol_cut + 1e-8, key + "/fci", written=float(e_w), pyscf=float(e_ref)))
                cnt["fci_checks"] += 1
                sample.update({"e_fci_written": float(e_w), "e_fci_pyscf": float(e_ref)})
    if len(ladder) == 4:
        # error shrinks (at least roughly linearly) with the threshold, down to thresholds far below single precision
        events.append(ev("trial/error-decreases-with-chol-cut", bool(ladder[-1] <= ladder[0] + 1e-12 and ladder[-1] <= 30 * chol_cuts[-1] + 1e-9), key=key + "/chol-ladder",
                         errors=ladder, cuts=chol_cuts))
    return {"events": events, "nontrivial": True, "sample": dict(sample, mol=case["mol"], mf=case["mf"], frozen=frozen, trial=case["trial"], walker_type=case["wt"]), "counters": cnt}
