"""C13 - orthonormalisation and initial walkers never change the represented state."""
import numpy as np

from vlib import fockref, measure, trials
from vlib.monitor import ev, judge

ID = "C13"
LEVEL_TEXT = ("Outputs of the QR helpers / propagator orthonormalisation are monitored for orthonormality, span equality, the "
              "determinant identity, and - through the Fock-space model and the real trial classes - invariance of overlap (times "
              "norm factor), local energy, force bias and CPMC Green's functions; initial walkers are checked for shape, "
              "orthonormality, overlap bounded away from zero (or explicit refusal) and the variational energy. Held = on all "
              "generated batches / trials.")
LEVEL_NOTE = "trusted: NumPy, vlib.fockref; conditioning: walker batches with cond <= 1e8, measurement invariance judged for |overlap| >= 0.05"
TECHNIQUE = "runtime monitoring: algebraic post-conditions + Fock-space reference on call/return values"
RULE = ("qr cases = container (restricted array / unrestricted list, n_up == n_dn and n_up != n_dn) x norb x electrons x batch size x "
        "conditioning (random, cond up to 1e8, scaled columns) x trial kind for the overlap identity; init cases = trial kind x sector x "
        "restricted flag x trial class (closed, open shell, spin-broken, orthogonal up/dn spaces); non-trivial = walkers not already "
        "orthonormal / initial walkers returned or refused")
MIN_NONTRIVIAL = {"quick": 80, "thorough": 500}
TIMEOUT = {"quick": 1200, "thorough": 5400}
ASSUMPTIONS = ["full-column-rank complex walker batches", "initial-walker overlap threshold 1e-3 relative to |psi_T| (the generator's own threshold)"]
REQUIRED_COUNTERS = {"qr_batches": 40, "overlap_identities": 40, "init_calls": 30, "contract_qr_orthonormal": 10}


def gen_cases(tier, seed):
    rng = np.random.default_rng([seed, 13])
    q = tier == "quick"
    cases = []
    kinds = ["uhf", "rhf", "ghf", "noci", "multislater", "ucisd", "cisd", "UCISD"]
    for kind in kinds:
        for norb in ([3, 4] if q else [3, 4, 5]):
            secs = measure.sectors(norb, kind, include_empty_dn=True)
            secs = [s for s in secs if s[0] < norb or kind in ("uhf", "rhf", "ghf", "noci")]
            lim = 3 if q else 5
            if len(secs) > lim:
                secs = [secs[i] for i in sorted(rng.choice(len(secs), lim, replace=False))]
            for (na, nb) in secs:
                for rep in range(1 if q else 3):
                    cases.append({"type": "qr", "kind": kind, "norb": norb, "nelec": [na, nb], "nw": int(rng.choice([1, 2, 5, 6])),
                                  "cond": str(rng.choice(["random", "illcond", "scaled"])), "s": int(rng.integers(1 << 30)),
                                  "group": "qr-%s-%d-%d-%d" % (kind, norb, na, nb), "cost": 3 if kind in ("multislater", "UCISD") else 1})
    for kind in ("uhf", "ghf"):
        for rep in range(3 if q else 12):
            cases.append({"type": "cpmc", "kind": kind, "norb": 4, "nelec": [2, int(rng.choice([1, 2]))], "s": int(rng.integers(1 << 30)),
                          "group": "cpmc-%s" % kind})
    for kind in ("rhf", "uhf", "ghf", "noci"):
        for norb in ([3, 4] if q else [3, 4, 5]):
            for (na, nb) in measure.sectors(norb, kind, include_empty_dn=(kind == "uhf")):   # fully polarised sectors (n, 0) for uhf
                for cls in ("generic", "rohf-like", "spin-broken", "orthogonal"):
                    if nb == 0 and cls != "generic":
                        continue
                    if kind == "rhf" and cls != "generic":
                        continue
                    for restricted in (False, True):
                        cases.append({"type": "init", "kind": kind, "norb": norb, "nelec": [na, nb], "class": cls, "restricted": restricted,
                                      "s": int(rng.integers(1 << 30)), "group": "init-%s-%d" % (kind, norb)})
    for kind, wt in (("uhf", "uhf"), ("rhf", "rhf"), ("noci", "uhf"), ("uhf", "rhf"), ("uhf", "cpmc")):
        for rep in range(2 if q else 6):
            cases.append({"type": "given", "kind": kind, "wt": wt, "norb": 4, "nelec": [2, 2] if (wt == "rhf" and kind == "rhf") or wt == "cpmc" else [2, 1],
                          "s": int(rng.integers(1 << 30)), "group": "given-%s-%s" % (kind, wt), "cost": 3})
    for wt, ad in (("rhf", None), ("uhf", "forward")):
        cases.append({"type": "driver", "wt": wt, "ad_mode": ad, "s": int(rng.integers(1 << 30)), "group": "drv-%s" % wt, "cost": 40})
    if q:
        keep = [c for c in cases if c["type"] != "init"]
        init = [c for c in cases if c["type"] == "init"]
        must = [c for c in init if c["kind"] == "uhf" and c["norb"] == 4 and tuple(c["nelec"]) in ((2, 1), (2, 2), (3, 1), (3, 2), (4, 2), (2, 0), (1, 0), (3, 0))]
        rest = [c for c in init if c not in must]
        idx = rng.choice(len(rest), size=min(len(rest), 60), replace=False)
        cases = keep + must + [rest[i] for i in sorted(idx)]
    return cases


def _pd(walkers, nw):
    """a prop_data with the per-walker arrays the sampler always carries (placeholders where the value is irrelevant for the clause at hand)"""
    import jax.numpy as jnp

    return {"walkers": walkers, "overlaps": jnp.ones(nw, dtype=complex), "weights": jnp.ones(nw)}


def make_batch(rng, norb, n, nw, cond):
    w = rng.normal(size=(nw, norb, n)) + 1j * rng.normal(size=(nw, norb, n))
    if n == 0:
        return w
    if cond == "illcond":
        for k in range(nw):
            u, s, vh = np.linalg.svd(w[k], full_matrices=False)
            s = np.logspace(0, -float(rng.uniform(2, 7)), n)
            w[k] = (u * s) @ vh
    elif cond == "scaled":
        w = w * (10.0 ** rng.uniform(-3, 3, size=(nw, 1, n)))
    return w


def span_diff(a, b):
    if a.shape[1] == 0:
        return 0.0
    pa = a @ np.linalg.pinv(a)
    pb = b @ np.linalg.pinv(b)
    return float(np.max(np.abs(pa - pb)))


def run_qr(case):
    import jax.numpy as jnp

    from ad_afqmc import linalg_utils, propagation

    rng = np.random.default_rng(case["s"])
    kind, norb = case["kind"], case["norb"]
    na, nb = case["nelec"]
    nw = case["nw"]
    F = fockref.get(norb)
    t = trials.make(kind, norb, (na, nb), rng, ms_ndets=8)
    trial, wd_ = t["trial"], t["wave_data"]
    psi = t["psi"]
    events = []
    cnt = {"qr_batches": 0, "overlap_identities": 0, "measurement_invariance": 0}
    key = "C13/qr"
    up = make_batch(rng, norb, na, nw, case["cond"])
    dn = make_batch(rng, norb, nb, nw, case["cond"])
    containers = []
    if "u" in t["entries"]:
        containers.append("u")
    if na == nb and ("r" in t["entries"] or kind in ("uhf", "ghf", "noci")):
        containers.append("r")
    h0, h1, chol = trials.rand_ham(rng, norb, 2, spin_dep=False)
    hd = measure.intermediates(t, h0, h1, chol)
    for cont in containers:
        if cont == "u":
            (qu, qd), norms = linalg_utils.qr_vmap_uhf([jnp.array(up), jnp.array(dn)])
            qu, qd, norms = np.asarray(qu), np.asarray(qd), np.asarray(norms)
            prop = propagation.propagator_unrestricted(n_walkers=nw)
            pd = prop.orthonormalize_walkers(_pd([jnp.array(up), jnp.array(dn)], nw))
            pd2, norms2 = prop._orthogonalize_walkers(_pd([jnp.array(up), jnp.array(dn)], nw))
            same = (np.allclose(np.asarray(pd["walkers"][0]), qu, atol=1e-13) and np.allclose(np.asarray(pd2["walkers"][1]), qd, atol=1e-13)
                    and np.allclose(np.asarray(norms2), norms, rtol=1e-12))
            blocks = [(up, qu, norms[0]), (dn, qd, norms[1])]
        else:
            q_, nr = linalg_utils.qr_vmap(jnp.array(up))
            q_, nr = np.asarray(q_), np.asarray(nr)
            prop = propagation.propagator_restricted(n_walkers=nw)
            pd = prop.orthonormalize_walkers(_pd(jnp.array(up), nw))
            same = np.allclose(np.asarray(pd["walkers"]), q_, atol=1e-13)
            blocks = [(up, q_, nr)]
            qu, qd = q_, q_
        cnt["qr_batches"] += 1
        events.append(ev("qr/propagator-uses-helper", bool(same), key=key + "/propagator-consistent-" + cont))
        r_orth = r_span = r_det = 0.0
        for (w, qq, nrm) in blocks:
            n = w.shape[2]
            if n == 0:
                continue
            for k in range(nw):
                cnd = np.linalg.cond(w[k])
                r_orth = max(r_orth, float(np.max(np.abs(qq[k].conj().T @ qq[k] - np.eye(n)))))
                r_span = max(r_span, span_diff(w[k], qq[k]) / max(1.0, cnd * 1e-4))
                for _ in range(3):
                    rows = np.sort(rng.choice(norb, size=n, replace=False))
                    d1 = np.linalg.det(w[k][rows])
                    d2 = np.linalg.det(qq[k][rows]) * nrm[k]
                    sc = np.prod(np.linalg.svd(w[k], compute_uv=False))
                    r_det = max(r_det, abs(d1 - d2) / sc / max(1.0, cnd * 1e-4))
        events.append(judge("qr/orthonormal", r_orth, 1e-12, key + "/orthonormal-" + cont))
        events.append(judge("qr/same-span", r_span, 1e-9, key + "/span-" + cont))
        events.append(judge("qr/determinant-identity", r_det, 1e-10, key + "/det-identity-" + cont, cond=case["cond"]))
        # overlap identity through the real trial and the Fock reference
        for k in range(nw):
            wu, wd = (up[k], dn[k]) if cont == "u" else (up[k], up[k][:, :nb])
            ou, od = (qu[k], qd[k]) if cont == "u" else (qu[k], qu[k][:, :nb])
            if measure.cond_filter(kind, t, wu, wd) > 1e6 or measure.cond_filter(kind, t, ou, od) > 1e6:
                continue
            phi_w = F.det(wu, wd)
            phi_q = F.det(ou, od)
            if cont == "u":
                o_w = complex(trial._calc_overlap(jnp.array(wu), jnp.array(wd), wd_))
                o_q = complex(trial._calc_overlap(jnp.array(ou), jnp.array(od), wd_))
                fac = norms[0][k] * norms[1][k]
            else:
                o_w = complex(trial._calc_overlap_restricted(jnp.array(wu), wd_))
                o_q = complex(trial._calc_overlap_restricted(jnp.array(ou), wd_))
                fac = nr[k] ** 2
            cnd = max(np.linalg.cond(up[k]), np.linalg.cond(dn[k]) if (cont == "u" and nb) else 1.0)
            # forward-error scale of a determinant: product of the column norms (Hadamard), not |phi| (tiny when ill conditioned)
            sc = np.linalg.norm(psi) * np.prod(np.linalg.norm(wu, axis=0)) * (np.prod(np.linalg.norm(wd, axis=0)) if nb else 1.0)
            events.append(judge("qr/overlap-times-norm", abs(o_w - o_q * fac) / sc, 1e-10 * max(1.0, cnd * 1e-3), key + "/overlap-identity-" + cont + "/" + kind,
                                container=cont, walkers=nw))
            # the same statement with the reference model: <psi|W> = <psi|Q> * factor
            events.append(judge("qr/overlap-times-norm-reference", abs(np.vdot(psi, phi_w) - np.vdot(psi, phi_q) * fac) / sc, 1e-10 * max(1.0, cnd * 1e-3),
                                key + "/overlap-identity-ref-" + cont))
            cnt["overlap_identities"] += 1
            rel = abs(np.vdot(psi, phi_w)) / (np.linalg.norm(psi) * np.linalg.norm(phi_w))
            if rel >= 0.05 and cnd < 1e4:
                if cont == "u":
                    e_w = complex(trial._calc_energy(jnp.array(wu), jnp.array(wd), hd, wd_))
                    e_q = complex(trial._calc_energy(jnp.array(ou), jnp.array(od), hd, wd_))
                    f_w = np.asarray(trial._calc_force_bias(jnp.array(wu), jnp.array(wd), hd, wd_))
                    f_q = np.asarray(trial._calc_force_bias(jnp.array(ou), jnp.array(od), hd, wd_))
                else:
                    e_w = complex(trial._calc_energy_restricted(jnp.array(wu), hd, wd_))
                    e_q = complex(trial._calc_energy_restricted(jnp.array(ou), hd, wd_))
                    f_w = np.asarray(trial._calc_force_bias_restricted(jnp.array(wu), hd, wd_))
                    f_q = np.asarray(trial._calc_force_bias_restricted(jnp.array(ou), hd, wd_))
                S = measure.ham_scale(h0, h1, chol)
                etol = 4e-4 * S if kind in ("cisd", "cisd_faster", "ucisd") else (2e-5 * S if kind in ("multislater",) + trials.AD_CI else 1e-8 * S * cnd)
                events.append(judge("qr/energy-unchanged", abs(e_w - e_q), etol / rel, key + "/energy-unchanged/" + kind))
                events.append(judge("qr/force-bias-unchanged", float(np.max(np.abs(f_w - f_q))), 1e-8 * cnd / rel, key + "/fb-unchanged/" + kind))
                cnt["measurement_invariance"] += 1
    # ---- restricted container with an open-shell trial: the beta determinant is the span of the walker's first n_dn columns,
    # re-orthonormalisation must preserve BOTH spans (state unchanged up to a scalar), energy and force bias
    if na > nb and kind in ("uhf", "ghf", "noci") and case["cond"] != "illcond":
        prop = propagation.propagator_restricted(n_walkers=nw)
        # column norms deliberately not in decreasing order
        upo = up * (10.0 ** rng.uniform(-1, 1, size=(nw, 1, na)))
        pdq = prop.orthonormalize_walkers(_pd(jnp.array(upo), nw))
        qo = np.asarray(pdq["walkers"])
        r_par = r_e = r_f = 0.0
        n_meas = 0
        for k in range(nw):
            a = F.det(upo[k][:, :na], upo[k][:, :nb])
            b = F.det(qo[k][:, :na], qo[k][:, :nb])
            par = 1.0 - abs(np.vdot(a, b)) / (np.linalg.norm(a) * np.linalg.norm(b))
            r_par = max(r_par, float(par))
            rel = abs(np.vdot(psi, a)) / (np.linalg.norm(psi) * np.linalg.norm(a))
            if rel >= 0.05:
                e_w = complex(trial._calc_energy_restricted(jnp.array(upo[k]), hd, wd_))
                e_q = complex(trial._calc_energy_restricted(jnp.array(qo[k]), hd, wd_))
                f_w = np.asarray(trial._calc_force_bias_restricted(jnp.array(upo[k]), hd, wd_))
                f_q = np.asarray(trial._calc_force_bias_restricted(jnp.array(qo[k]), hd, wd_))
                r_e = max(r_e, abs(e_w - e_q) * rel)
                r_f = max(r_f, float(np.max(np.abs(f_w - f_q))) * rel)
                n_meas += 1
        events.append(judge("qr/open-shell-restricted-state-unchanged", r_par, 1e-10, key + "/restricted-open/state/" + kind))
        if n_meas:
            events.append(judge("qr/open-shell-restricted-energy-unchanged", r_e, 1e-8 * measure.ham_scale(h0, h1, chol), key + "/restricted-open/energy/" + kind))
            events.append(judge("qr/open-shell-restricted-force-bias-unchanged", r_f, 1e-8, key + "/restricted-open/fb/" + kind))
        cnt["qr_batches"] += 1
        containers = containers + ["restricted-open"]
    # ---- orthonormalisation of a complete prop_data (as the sampler calls it): every cached per-walker quantity that the routine touches
    # must afterwards belong to the new walkers; what it leaves alone is the caller's to refresh (C08).  Restricted containers for closed
    # AND open shells (the dn determinant is the leading n_dn columns), unrestricted containers.
    if case["cond"] != "illcond" and nb > 0:
        import copy as _copy

        full = []
        if "u" in t["entries"]:
            full.append(("u", propagation.propagator_unrestricted(n_walkers=nw), [jnp.array(up), jnp.array(dn)]))
        if kind in ("rhf", "uhf", "ghf", "noci") and (na == nb or kind != "rhf"):
            full.append(("r-open" if na > nb else "r", propagation.propagator_restricted(n_walkers=nw), jnp.array(up * (10.0 ** rng.uniform(-1, 1, size=(nw, 1, na))))))
        for cname, prop_f, w_in in full:
            ov_in = np.asarray(trial.calc_overlap(w_in, wd_))
            pd_in = {"walkers": list(w_in) if isinstance(w_in, list) else w_in, "overlaps": jnp.array(ov_in), "weights": jnp.ones(nw)}
            pd_out = prop_f.orthonormalize_walkers(_copy.copy(pd_in))
            ov_out = np.asarray(pd_out["overlaps"])
            ov_new = np.asarray(trial.calc_overlap(pd_out["walkers"], wd_))
            untouched = bool(np.array_equal(ov_out, ov_in))
            coherent = float(np.max(np.abs(ov_out - ov_new) / np.maximum(np.abs(ov_new), 1e-300)))
            events.append(ev("qr/cached-overlaps-untouched-or-coherent", bool(untouched or coherent < 1e-9), key=key + "/cached-overlaps/" + cname,
                             untouched=untouched, incoherence=coherent, container=cname))
            events.append(ev("qr/weights-untouched", bool(np.array_equal(np.asarray(pd_out["weights"]), np.ones(nw))), key=key + "/weights-untouched/" + cname))
            cnt["qr_full_prop_data"] = cnt.get("qr_full_prop_data", 0) + 1
    nontriv = bool(containers)
    return {"events": events, "nontrivial": nontriv, "sample": {"kind": kind, "nelec": [na, nb], "walkers": nw, "cond_class": case["cond"],
                                                                 "containers": containers}, "counters": cnt}


def run_cpmc(case):
    import jax.numpy as jnp

    from ad_afqmc import linalg_utils, wavefunctions

    rng = np.random.default_rng(case["s"])
    norb = case["norb"]
    na, nb = case["nelec"]
    if case["kind"] == "uhf":
        trial = wavefunctions.uhf_cpmc(norb, (na, nb))
        wd = {"mo_coeff": [jnp.array(rng.normal(size=(norb, na))), jnp.array(rng.normal(size=(norb, nb)))]}
    else:
        trial = wavefunctions.ghf_cpmc(norb, (na, nb))
        wd = {"mo_coeff": jnp.array(rng.normal(size=(2 * norb, na + nb)))}
    nw = 4
    up = rng.normal(size=(nw, norb, na))
    dn = rng.normal(size=(nw, norb, nb))
    g1 = np.asarray(trial.calc_full_green_vmap([jnp.array(up), jnp.array(dn)], wd))
    d1 = np.asarray(trial.calc_green_diagonal_vmap([jnp.array(up), jnp.array(dn)], wd))
    (qu, qd), _ = linalg_utils.qr_vmap_uhf([jnp.array(up), jnp.array(dn)])
    g2 = np.asarray(trial.calc_full_green_vmap([qu, qd], wd))
    d2 = np.asarray(trial.calc_green_diagonal_vmap([qu, qd], wd))
    sc = max(1.0, float(np.max(np.abs(g1))))
    events = [judge("qr/cpmc-green-unchanged", float(np.max(np.abs(g1 - g2))) / sc, 1e-9, "C13/qr/cpmc-green/" + case["kind"]),
              judge("qr/cpmc-green-diagonal-unchanged", float(np.max(np.abs(d1 - d2))) / sc, 1e-9, "C13/qr/cpmc-green-diag/" + case["kind"])]
    return {"events": events, "nontrivial": True, "sample": {"kind": case["kind"], "max_green": sc}, "counters": {"qr_batches": 1}}


def run_init(case):
    import jax.numpy as jnp

    rng = np.random.default_rng(case["s"])
    kind, norb = case["kind"], case["norb"]
    na, nb = case["nelec"]
    cls = case["class"]
    F = fockref.get(norb)
    # rhf / uhf trials may have complex orbitals (complex Hermitian density matrix): every other case of the generic and ROHF-like classes
    cplx = bool(kind in ("rhf", "uhf") and cls in ("generic", "rohf-like") and case["s"] % 2 == 1)
    t = trials.make(kind, norb, (na, nb), rng, orthonormal=True, complex_orbs=cplx)
    # shape the trial class through its orbitals
    if kind in ("uhf",) and cls != "generic":
        qa = trials.rand_orth(rng, norb)
        if cplx:
            qa = np.linalg.qr(rng.normal(size=(norb, norb)) + 1j * rng.normal(size=(norb, norb)))[0]
        a = qa[:, :na]
        if cls == "rohf-like":
            b = a[:, :nb]
        elif cls == "spin-broken":
            b = np.linalg.qr(a[:, :nb] + 0.7 * qa[:, na:na + nb] if na + nb <= norb else a[:, :nb] + 0.3 * rng.normal(size=(norb, nb)))[0] if nb else a[:, :0]
        else:  # dn space orthogonal to the up space (when there is room)
            b = qa[:, na:na + nb] if na + nb <= norb else a[:, :nb]
        t["wave_data"] = {"mo_coeff": [jnp.array(a), jnp.array(b)]}
        t["psi"] = F.det(a, b)
    trial, wd_ = t["trial"], t["wave_data"]
    psi = t["psi"]
    events = []
    n_w = 3
    key = "C13/init/%s/%s/%s" % (kind, "restricted" if case["restricted"] else "unrestricted", "closed" if na == nb else "open")
    try:
        w = trial.get_init_walkers(wd_, n_w, restricted=case["restricted"])
        refused = None
    except ValueError as exc:
        refused = str(exc)
    except AssertionError as exc:
        refused = "assert " + str(exc)
    cnt = {"init_calls": 1, "init_refusals": int(refused is not None)}
    if refused is not None:
        events.append(ev("init/refused-explicitly", True, key=key + "/refused", msg=refused[:100], cls=cls))
        return {"events": events, "nontrivial": True, "sample": {"kind": kind, "class": cls, "refused": refused[:80]}, "counters": cnt}
    if case["restricted"]:
        w = np.asarray(w)
        shape_ok = w.shape == (n_w, norb, na)
        ups, dns = w, w[:, :, :nb]
    else:
        ups, dns = np.asarray(w[0]), np.asarray(w[1])
        shape_ok = ups.shape == (n_w, norb, na) and dns.shape == (n_w, norb, nb)
    events.append(ev("init/shape-and-count", bool(shape_ok), key=key + "/shape", got=[list(ups.shape), list(dns.shape)]))
    if not shape_ok:
        return {"events": events, "nontrivial": True, "counters": cnt}
    r = 0.0
    for k in range(n_w):
        r = max(r, float(np.max(np.abs(ups[k].conj().T @ ups[k] - np.eye(na)))))
        if nb and not case["restricted"]:
            r = max(r, float(np.max(np.abs(dns[k].conj().T @ dns[k] - np.eye(nb)))))
    events.append(judge("init/orthonormal", r, 1e-10, key + "/orthonormal"))
    phi = F.det(ups[0], dns[0])
    ov_ref = np.vdot(psi, phi) / (np.linalg.norm(psi) * np.linalg.norm(phi))
    if case["restricted"]:
        ov = np.asarray(trial.calc_overlap(jnp.array(w), wd_))
    else:
        ov = np.asarray(trial.calc_overlap([jnp.array(ups), jnp.array(dns)], wd_))
    events.append(judge("init/overlap-matches-reference", abs(ov[0] / np.linalg.norm(psi) / np.linalg.norm(phi) - ov_ref), 1e-10, key + "/overlap-reference"))
    # rhf / uhf: the natural-orbital determinant the generator thresholds at 1e-3 IS the trial.  ghf / noci: the generator can only
    # threshold the natural-orbital determinant, the overlap with the full trial must merely stay away from numerical zero
    # (1e-6, the driver's own acceptance threshold)
    thr = 1e-3 if kind in ("rhf", "uhf") else 1e-6
    events.append(ev("init/overlap-bounded-away-from-zero", bool(abs(ov_ref) >= thr), float(thr / max(abs(ov_ref), 1e-300)), 1.0,
                     key + "/overlap-nonzero/" + cls, overlap=float(abs(ov_ref)), cls=cls, threshold=thr))
    # variational energy of single-determinant trials
    if kind in ("rhf", "uhf", "ghf") and not case["restricted"]:
        h0, h1, chol = trials.rand_ham(rng, norb, 2, spin_dep=(kind != "rhf"))
        hd = measure.intermediates(t, h0, h1, chol)
        H = F.hamiltonian(h0, h1[0], h1[1], chol)
        evar = np.vdot(psi, H @ psi) / np.vdot(psi, psi)
        e = np.asarray(trial.calc_energy([jnp.array(ups), jnp.array(dns)], hd, wd_))
        S = measure.ham_scale(h0, h1, chol)
        if kind != "ghf":  # a GHF trial is not reproduced by spin-collinear walkers
            events.append(judge("init/variational-energy", abs(e[0] - evar), 1e-9 * S, key + "/variational-energy", e=complex(e[0]), ref=complex(evar)))
    elif kind == "rhf" and case["restricted"]:
        h0, h1, chol = trials.rand_ham(rng, norb, 2, spin_dep=False)
        hd = measure.intermediates(t, h0, h1, chol)
        H = F.hamiltonian(h0, h1[0], h1[1], chol)
        evar = np.vdot(psi, H @ psi) / np.vdot(psi, psi)
        e = np.asarray(trial.calc_energy(jnp.array(w), hd, wd_))
        events.append(judge("init/variational-energy", abs(e[0] - evar), 1e-9 * measure.ham_scale(h0, h1, chol), key + "/variational-energy"))
    elif kind == "uhf" and case["restricted"] and cls == "rohf-like":
        # the dn space lies inside the up space: a restricted walker can (and therefore must) represent this single determinant exactly
        events.append(judge("init/restricted-walker-reproduces-rohf-like-trial", abs(abs(ov_ref) - 1.0), 1e-10, key + "/rohf-like-state", overlap=float(abs(ov_ref))))
        h0, h1, chol = trials.rand_ham(rng, norb, 2, spin_dep=False)
        hd = measure.intermediates(t, h0, h1, chol)
        H = F.hamiltonian(h0, h1[0], h1[1], chol)
        evar = np.vdot(psi, H @ psi) / np.vdot(psi, psi)
        e = np.asarray(trial.calc_energy(jnp.array(w), hd, wd_))
        events.append(judge("init/variational-energy", abs(e[0] - evar), 1e-9 * measure.ham_scale(h0, h1, chol), key + "/variational-energy/rohf-like",
                            e=complex(e[0]), ref=complex(evar)))
    return {"events": events, "nontrivial": True, "sample": {"kind": kind, "class": cls, "restricted": case["restricted"], "overlap": float(abs(ov_ref)), "complex_trial_orbitals": cplx},
            "counters": cnt}


def run_given(case):
    """init_prop_data with user-supplied (non-orthonormal, differently scaled) walkers: norms x walkers must still be the supplied states"""
    import jax.numpy as jnp

    from vlib import afqmc

    rng = np.random.default_rng(case["s"])
    norb = case["norb"]
    na, nb = case["nelec"]
    nw = 5
    F = fockref.get(norb)
    cp = case["wt"] == "cpmc"
    S = afqmc.make_system(case["kind"], norb, (na, nb), rng, walker_type="uhf" if cp else case["wt"], dt=0.01, n_walkers=nw, nchol=2, orthonormal=True)
    trial, wd_, hd = S["trial"], S["wave_data"], S["ham_data"]
    psi = S["t"]["psi"]
    scales = 10.0 ** rng.uniform(-1, 1, size=(nw, 1, 1))
    cplx = 0.0 if cp else 1.0
    up = (rng.normal(size=(nw, norb, na)) + 1j * cplx * rng.normal(size=(nw, norb, na))) * scales
    dn = (rng.normal(size=(nw, norb, nb)) + 1j * cplx * rng.normal(size=(nw, norb, nb))) * scales
    if cp:
        from ad_afqmc import propagation, wavefunctions

        prop = propagation.propagator_cpmc(dt=0.01, n_walkers=nw)
        trial = wavefunctions.uhf_cpmc(norb, (na, nb))
        hd = dict(hd)
        hd["u"] = 4.0
        given = [jnp.array(up + 0j), jnp.array(dn + 0j)]
    elif case["wt"] == "rhf":
        prop = S["prop"]
        given = jnp.array(up)
    else:
        prop = S["prop"]
        given = [jnp.array(up), jnp.array(dn)]
    pd = prop.init_prop_data(trial, wd_, hd, given)
    W = afqmc.np_walkers(pd["walkers"])
    norms = np.asarray(pd["norms"]) if "norms" in pd else np.ones(nw)
    ov = np.asarray(pd["overlaps"])
    worst = {"state": 0.0, "overlap": 0.0}
    for k in range(nw):
        if case["wt"] == "rhf":
            ref = F.det(up[k][:, :na], up[k][:, :nb])
            got = norms[k] * F.det(W[k][:, :na], W[k][:, :nb])
        else:
            ref = F.det(up[k], dn[k])
            got = norms[k] * F.det(W[0][k], W[1][k])
        nr = np.linalg.norm(ref)
        worst["state"] = max(worst["state"], float(np.linalg.norm(got - ref) / nr))
        worst["overlap"] = max(worst["overlap"], float(abs(ov[k] * norms[k] / (norms[k] if "normed_overlaps" not in pd else 1.0) - np.vdot(psi, ref)) / (np.linalg.norm(psi) * nr)) if False else
                               float(abs(ov[k] - np.vdot(psi, ref)) / (np.linalg.norm(psi) * nr)))
    key = "C13/given/%s/%s" % (case["kind"], case["wt"])
    events = [judge("given/population-preserved", worst["state"], 1e-10, key + "/state"),
              judge("given/stored-overlap-of-supplied-state", worst["overlap"], 1e-10, key + "/overlap")]
    return {"events": events, "nontrivial": True, "sample": {"kind": case["kind"], "wt": case["wt"], "worst": worst, "norms": norms[:3].tolist()},
            "counters": {"init_calls": 1}}


def run_case(case):
    if case["type"] == "given":
        return run_given(case)
    if case["type"] == "driver":
        from vlib import contracts

        return contracts.driver_case(("qr",), ["qr-orthonormal"], case, "C13")
    return {"qr": run_qr, "cpmc": run_cpmc, "init": run_init}[case["type"]](case)
