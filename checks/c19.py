"""C19 - reported means and error bars follow their statistical definitions."""
import contextlib
import io
import math

import numpy as np

from vlib.monitor import ev, judge

ID = "C19"
LEVEL_TEXT = ("Return values (and the printed per-block-size table) of blocking_analysis, reject_outliers and jackknife_ratios are "
              "compared with independent re-derivations from the definitions on generated series, with metamorphic clauses "
              "(weight rescaling, constant shift, constant data, equilibration cut) and ensemble clauses with known true error "
              "(i.i.d. and AR(1)). Held = on all generated series / ensembles.")
LEVEL_NOTE = "trusted: NumPy; the definitions written out in this file; ensemble clauses are statistical with >= 60 replicas and wide bands"
TECHNIQUE = "runtime monitoring: definitional reference model + metamorphic relations + known-truth ensembles"
RULE = ("cases = series (length 4..10000; weights of scale 1e-6..1e6, near-uniform or broad, with ties; energies i.i.d., AR(1), "
        "constant, trending, heavy-tailed) x equilibration cut; outlier cases = data matrix x column x m; jackknife cases = num/denom "
        "series; ensemble cases = 60-100 replicas of i.i.d. (n 100..2000, weights in [0.8,1.2]) or AR(1) (n >= 200 tau_int) series; "
        "non-trivial = series not constant and length >= 4")
MIN_NONTRIVIAL = {"quick": 150, "thorough": 1500}
TIMEOUT = {"quick": 900, "thorough": 5400}
ASSUMPTIONS = ["positive weights", "statistical clauses only for near-uniform weights (effective sample size >= 0.98 n) and, for "
               "AR(1), series of at least 200 integrated autocorrelation times",
               "outlier clause judged only when no row lies within 1e-9 (relative) of the rejection boundary"]
REQUIRED_COUNTERS = {"series": 100, "outlier_cases": 20, "jackknife_cases": 10, "ensembles": 4, "contract_blocking_definition": 10, "contract_outliers_definition": 1}
BLOCKS = [1, 2, 5, 10, 20, 50, 100, 200, 300, 400, 500, 1000, 10000]


# ---------------------------------------------------------------- definitional reference
def ref_table(w, e):
    """[(block size, n blocks, mean, error)] from the definition: consecutive blocks of b samples
    (trailing remainder dropped), block weight = sum, block energy = weighted mean, error =
    sqrt( sum W_j (E_j - M)^2 / (V1 - V2/V1) / (nb - 1) ) with M, V1, V2 over the blocks used."""
    n = len(w)
    rows = []
    for b in BLOCKS:
        if not b < n / 2.0:
            continue
        nb = n // b
        W = np.array([w[j * b:(j + 1) * b].sum() for j in range(nb)])
        E = np.array([(w[j * b:(j + 1) * b] * e[j * b:(j + 1) * b]).sum() for j in range(nb)]) / W
        v1, v2 = W.sum(), (W ** 2).sum()
        M = (W * E).sum() / v1
        var = (W * (E - M) ** 2).sum() / (v1 - v2 / v1) / (nb - 1)
        rows.append((b, nb, M, math.sqrt(var) if var >= 0 else float("nan")))
    return rows


def ref_plateau(rows):
    prev = 0.0
    for (_, _, _, err) in rows:
        if err < 1.05 * prev:
            return max(err, prev)
        prev = err
    return None


def call_blocking(w, e, neql=0, table=False):
    from ad_afqmc import stat_utils

    if not table:
        return stat_utils.blocking_analysis(w, e, neql=neql), None
    buf = io.StringIO()
    with contextlib.redirect_stdout(buf):
        out = stat_utils.blocking_analysis(w, e, neql=neql, printQ=True)
    rows = []
    for line in buf.getvalue().splitlines():
        parts = line.split()
        if len(parts) == 4 and parts[0].isdigit():
            rows.append((int(parts[0]), int(parts[1]), float(parts[2]), float(parts[3])))
    return out, rows


def gen_cases(tier, seed):
    rng = np.random.default_rng([seed, 19])
    q = tier == "quick"
    cases = []
    for rep in range(220 if q else 20000):
        cases.append({"type": "series", "s": int(rng.integers(1 << 30)), "group": "ser%d" % (rep % 16)})
    for rep in range(40 if q else 4000):
        cases.append({"type": "outliers", "s": int(rng.integers(1 << 30)), "group": "out%d" % (rep % 16)})
    for rep in range(30 if q else 3000):
        cases.append({"type": "jackknife", "s": int(rng.integers(1 << 30)), "group": "jk%d" % (rep % 16)})
    for rep in range(8 if q else 240):
        cases.append({"type": "ensemble", "kind": "iid" if rep % 2 == 0 else "ar1", "s": int(rng.integers(1 << 30)),
                      "group": "ens%d" % rep, "cost": 40})
    for wt, ad in (("rhf", None), ("uhf", "reverse")) if q else (("rhf", None), ("uhf", "reverse"), ("uhf", "forward"), ("rhf", "reverse")):
        cases.append({"type": "driver", "wt": wt, "ad_mode": ad, "nblocks": 24, "s": int(rng.integers(1 << 30)), "group": "drv-%s-%s" % (wt, ad), "cost": 300})
    return cases


def make_series(rng):
    n = int(rng.choice([4, 5, 6, 7, 9, 11, 21, 41, 50, 99, 100, 101, 250, 401, 1000, 2001, 2500, 10000],
                       p=np.array([2, 2, 2, 2, 2, 2, 3, 3, 3, 3, 3, 3, 2, 2, 1, 1, 0.5, 0.2]) / 36.7))
    scale = 10.0 ** rng.uniform(-6, 6)
    wk = rng.choice(["uniform", "near", "broad", "ties"])
    if wk == "uniform":
        w = np.ones(n)
    elif wk == "near":
        w = rng.uniform(0.8, 1.2, size=n)
    elif wk == "broad":
        w = rng.lognormal(0, 1.0, size=n)
    else:
        w = rng.choice([1.0, 2.0, 3.0], size=n)
    w = w * scale
    ek = rng.choice(["iid", "ar1", "const", "trend", "heavy"])
    if ek == "iid":
        e = rng.normal(size=n)
    elif ek == "ar1":
        phi = rng.uniform(0.2, 0.95)
        x = np.zeros(n)
        x[0] = rng.normal()
        for i in range(1, n):
            x[i] = phi * x[i - 1] + rng.normal()
        e = x
    elif ek == "const":
        e = np.full(n, float(rng.normal() * 10))
    elif ek == "trend":
        e = np.linspace(0, 1, n) + 0.1 * rng.normal(size=n)
    else:
        e = rng.standard_t(2.5, size=n)
    e = e * 10.0 ** rng.uniform(-3, 2) + rng.normal() * 5
    return w, e, wk, ek


def run_series(case):
    rng = np.random.default_rng(case["s"])
    w, e, wk, ek = make_series(rng)
    n = len(w)
    events = []
    key = "C19/blocking"
    (mean, err), rows = call_blocking(w, e, table=True)
    ref_rows = ref_table(w, e)
    ref_mean = (w * e).sum() / w.sum()
    escale = max(1e-300, float(np.max(np.abs(e))))
    events.append(judge("blocking/mean", abs(mean - ref_mean) / escale, 1e-12, key + "/mean"))
    ref_err = ref_plateau(ref_rows)
    const = ek == "const"
    if const:
        ok = (err is None) or (abs(err) <= 64 * np.finfo(float).eps * escale)
        events.append(ev("blocking/constant-data-no-error", bool(ok), key=key + "/constant-data", err=err))
    else:
        if (err is None) != (ref_err is None):
            events.append(ev("blocking/plateau-presence", False, key=key + "/plateau-presence", got=err, ref=ref_err, n=n))
        elif err is not None:
            events.append(judge("blocking/returned-error", abs(err - ref_err) / ref_err, 1e-9, key + "/returned-error",
                                n=n, got=err, ref=ref_err, weights=wk, energies=ek))
        # printed table against the definition (6 significant digits printed)
        if rows is not None and len(rows) == len(ref_rows) and len(rows) > 0:
            worst = 0.0
            for (b, nb, m, er), (rb, rnb, rm, rer) in zip(rows, ref_rows):
                if b != rb or nb != rnb:
                    worst = float("inf")
                    break
                if rer > 0:
                    worst = max(worst, abs(er - rer) / rer)
            events.append(judge("blocking/table-vs-definition", worst, 5e-6, key + "/table", n=n, nrows=len(rows)))
            if ref_rows:
                b1 = ref_rows[0]
                events.append(judge("blocking/block-size-1-formula", abs(rows[0][3] - b1[3]) / max(1e-300, b1[3]), 5e-6, key + "/block1"))
        elif rows is not None and len(rows) != len(ref_rows):
            events.append(ev("blocking/table-rows", False, key=key + "/table-rows", got=len(rows), ref=len(ref_rows), n=n))
        # metamorphic: rescale weights, shift energies
        c = 10.0 ** rng.uniform(-3, 3)
        (m2, e2), _ = call_blocking(w * c, e)
        events.append(judge("blocking/weight-rescaling-mean", abs(m2 - mean) / escale, 1e-11, key + "/rescale-mean"))
        if err is not None:
            events.append(ev("blocking/weight-rescaling-error", bool(e2 is not None and abs(e2 - err) <= 1e-9 * err),
                             key=key + "/rescale-error", a=err, b=e2))
        sh = float(rng.normal() * escale) * float(rng.choice([1.0, 1.0, 1e3, 1e6]))   # also offsets far larger than the spread
        (m3, e3), _ = call_blocking(w, e + sh)
        events.append(judge("blocking/shift-mean", abs(m3 - (mean + sh)) / max(escale, abs(sh)), 1e-11, key + "/shift-mean"))
        if err is not None:
            spread = max(1e-300, float(np.std(e)))
            # the error of a two-pass (centred) variance changes by ~eps*|shift|/spread relatively when a constant is added
            spread_ = max(1e-300, float(np.std(e)))
            rel_tol = 1e-9 + 64 * np.finfo(float).eps * (abs(sh) + escale) / spread_ * max(1.0, np.sqrt(n))
            events.append(ev("blocking/shift-error", bool(e3 is not None and abs(e3 - err) <= rel_tol * err),
                             key=key + "/shift-error", a=err, b=e3, shift=sh, rel_tol=rel_tol))
    # equilibration cut
    k = int(rng.integers(0, max(1, n // 3)))
    (m4, e4), _ = call_blocking(w, e, neql=k)
    (m5, e5), _ = call_blocking(w[k:], e[k:])
    same = (m4 == m5) and ((e4 is None and e5 is None) or (e4 is not None and e5 is not None and e4 == e5))
    events.append(ev("blocking/equilibration-cut", bool(same), key=key + "/neql", k=k))
    return {"events": events, "nontrivial": (not const) and n >= 4,
            "sample": {"n": n, "weights": wk, "energies": ek, "mean": mean, "error": err, "ref_error": ref_err,
                       "table": rows[:4] if rows else None},
            "counters": {"series": 1}}


def run_outliers(case):
    from ad_afqmc import stat_utils

    rng = np.random.default_rng(case["s"])
    n = int(rng.integers(4, 400))
    ncol = int(rng.integers(2, 5))
    data = rng.normal(size=(n, ncol)) * 10.0 ** rng.uniform(-2, 2, size=ncol)
    nout = int(rng.integers(0, max(1, n // 10) + 1))
    for _ in range(nout):
        data[rng.integers(n), rng.integers(ncol)] *= rng.choice([30.0, 1e3, -50.0])
    if rng.random() < 0.2:
        data[:, rng.integers(ncol)] = np.round(data[:, 0])  # ties
    obs = int(rng.integers(ncol))
    m = float(rng.choice([1.0, 2.0, 5.0, 10.0, 20.0]))
    kept, mask = stat_utils.reject_outliers(data.copy(), obs, m) if rng.random() < 0.7 or m != 10.0 else stat_utils.reject_outliers(data.copy(), obs)
    x = data[:, obs]
    med = np.median(x)
    d = np.abs(x - med)
    mad = np.median(d) + 1.0e-10
    bound = m * mad
    near = np.any(np.abs(d - bound) <= 1e-9 * max(bound, 1e-300))
    events = []
    if near:
        events.append(ev("outliers/skip-boundary", None, key="C19/outliers/skip-boundary"))
    else:
        ref_mask = d < bound
        ok = np.array_equal(np.asarray(mask), ref_mask) and np.array_equal(np.asarray(kept), data[ref_mask])
        events.append(ev("outliers/kept-set", bool(ok), key="C19/outliers/kept-set", n=n, obs=obs, m=m,
                         kept=int(np.sum(mask)), ref=int(ref_mask.sum())))
    return {"events": events, "nontrivial": True, "sample": {"n": n, "column": obs, "m": m, "kept": int(np.sum(mask))},
            "counters": {"outlier_cases": 0 if near else 1}}


def run_jackknife(case):
    from ad_afqmc import stat_utils

    rng = np.random.default_rng(case["s"])
    n = int(rng.integers(3, 300))
    num = rng.normal(size=n) + rng.normal() * 3
    den = rng.uniform(0.5, 2.0, size=n)
    if rng.random() < 0.3:
        num = num * 10.0 ** rng.uniform(-4, 4)
    cplx = bool(case["s"] % 2)
    if cplx:   # free-projection style samples: complex numerators and denominators (overlaps with a phase); the estimator is Re(<num>/<den>)
        num = num + 1j * rng.normal(size=n)
        den = den * np.exp(1j * rng.normal(size=n) * 0.4)
    mean, sigma = stat_utils.jackknife_ratios(num, den)
    th = np.array([(np.delete(num, i).mean() / np.delete(den, i).mean()).real for i in range(n)])
    ref_mean = th.mean()
    ref_sigma = math.sqrt((n - 1) / n * np.sum((th - ref_mean) ** 2))
    sc = max(1e-300, abs(ref_mean))
    events = [judge("jackknife/mean", abs(mean - ref_mean) / sc, 1e-10, "C19/jackknife/mean", n=n, complex_samples=cplx),
              judge("jackknife/sigma", abs(sigma - ref_sigma) / max(1e-300, ref_sigma), 1e-8, "C19/jackknife/sigma", n=n)]
    return {"events": events, "nontrivial": True, "sample": {"n": n, "mean": float(np.real(mean)), "sigma": float(np.real(sigma)), "ref_sigma": ref_sigma, "complex_samples": cplx},
            "counters": {"jackknife_cases": 1}}


def run_ensemble(case):
    rng = np.random.default_rng(case["s"])
    nrep = 80
    events = []
    if case["kind"] == "iid":
        n = int(rng.choice([100, 250, 1000, 2000]))
        sigma = 10.0 ** rng.uniform(-2, 1)
        ratios = []
        for _ in range(nrep):
            w = rng.uniform(0.8, 1.2, size=n)
            e = rng.normal(size=n) * sigma + 3.0
            (m, err), _ = call_blocking(w, e)
            true = sigma * math.sqrt((w ** 2).sum()) / w.sum()
            if err is not None:
                ratios.append(err / true)
        med = float(np.median(ratios)) if ratios else float("nan")
        events.append(ev("ensemble/iid-median-ratio", bool(len(ratios) >= 0.9 * nrep and 0.9 <= med <= 1.1), med, 1.1,
                         "C19/ensemble/iid", n=n, replicas=len(ratios), median_ratio=med))
        sample = {"kind": "iid", "n": n, "median_ratio": med, "replicas_with_error": len(ratios)}
    else:
        tau = float(rng.choice([3.0, 5.0, 9.0]))
        phi = (tau - 1) / (tau + 1)
        n = int(max(2000, 250 * tau))
        sx = 1.0 / math.sqrt(1 - phi ** 2)
        true = sx * math.sqrt(tau / n)
        ratios = []
        tables = []
        for _ in range(nrep):
            x = np.zeros(n)
            x[0] = rng.normal() * sx
            z = rng.normal(size=n)
            for i in range(1, n):
                x[i] = phi * x[i - 1] + z[i]
            w = rng.uniform(0.9, 1.1, size=n)
            (m, err), rows = call_blocking(w, x, table=True)
            if err is not None:
                ratios.append(err / true)
            tables.append([r[3] for r in rows])
        med = float(np.median(ratios)) if ratios else float("nan")
        events.append(ev("ensemble/ar1-plateau-median-ratio", bool(len(ratios) >= 0.9 * nrep and 0.85 <= med <= 1.15), med, 1.15,
                         "C19/ensemble/ar1-plateau", n=n, tau=tau, replicas=len(ratios), median_ratio=med))
        tab = np.mean(np.array(tables), axis=0)
        grow_ok = True
        for a, b in zip(tab[:-1], tab[1:]):
            if a >= 0.9 * true:
                break
            if b < 0.95 * a:
                grow_ok = False
        events.append(ev("ensemble/ar1-estimates-grow-to-plateau", bool(grow_ok and tab.max() >= 0.9 * true), key="C19/ensemble/ar1-growth",
                         table_over_true=(tab / true).tolist()))
        sample = {"kind": "ar1", "n": n, "tau_int": tau, "median_ratio": med, "mean_table_over_true": (tab / true).tolist()}
    return {"events": events, "nontrivial": True, "sample": sample, "counters": {"ensembles": 1}}


def run_case(case):
    if case["type"] == "driver":
        from vlib import contracts

        return contracts.driver_case(("stats",), ["blocking-definition", "outliers-definition"], case, "C19")
    return {"series": run_series, "outliers": run_outliers, "jackknife": run_jackknife, "ensemble": run_ensemble}[case["type"]](case)
