"""C06 - AD energy derivatives are the true derivatives of the sampled estimator."""
import numpy as np

from vlib import afqmc, trials
from vlib.monitor import ev, judge

ID = "C06"
LEVEL_TEXT = ("The sampler's AD entry points are called exactly as driver.afqmc calls them (jvp / vjp with auxiliary prop_data and the driver's "
              "tangent construction) and the results are compared with central finite differences of the same deterministic function, with "
              "each other (vjp contracted with the observable == jvp, primal values == plain sampler), with the analytic one-body limit "
              "(sum of occupied eigenvalues, tr(rho O)) and with the per-spin trace rule. Held = on all generated systems / observables / seeds.")
LEVEL_NOTE = "trusted: NumPy, finite differences of the library's own primal as the independent derivative (step ladder), analytic one-body limit"
TECHNIQUE = "runtime monitoring: differential oracle (forward vs reverse vs finite difference vs analytic limit) on recorded jvp/vjp call results"
RULE = ("cases = AD entry point (ad, ad_nosr, ad_norot, ad_nosr_norot, 2-RDM) x walker type x closed/open shell x sampler shape x observable "
        "(symmetric and non-symmetric, spin-dependent) x seed; non-trivial = derivative above 1e-6 in magnitude and finite-difference ladder "
        "consistent (no discontinuity detected)")
MIN_NONTRIVIAL = {"quick": 6, "thorough": 28}
TIMEOUT = {"quick": 3600, "thorough": 14400}
ASSUMPTIONS = ["the estimator is piecewise smooth (comb indices, clipping): samples whose finite difference diverges like 1/eps are classified as "
               "discontinuities and excluded; more than 20 % excluded makes the run inconclusive",
               "one-body limit uses a gapped one-body Hamiltonian (HOMO-LUMO gap >= 0.5)"]
REQUIRED_COUNTERS = {"jvp_calls": 6, "vjp_calls": 6, "one_body_limit": 4, "site_2rdm": 2}
NWALK = 6


def gen_cases(tier, seed):
    rng = np.random.default_rng([seed, 6])
    q = tier == "quick"
    cases = []
    entries = ["ad", "ad_nosr", "ad_norot", "ad_nosr_norot"]
    for entry in entries:
        for wt in ("rhf", "uhf"):
            for rep in range(2 if q else 4):
                single = bool(rep % 2 == 0)
                # multi-block shapes always contain an in-block reconfiguration that later energy blocks depend on (n_sr_blocks >= 2)
                shape = [int(rng.integers(2, 5)), 1 if single else int(rng.integers(2, 4) if "nosr" in entry else rng.integers(1, 3)), 1 if single else int(rng.integers(2, 4))]
                # (the entry points without reconfiguration scan over the energy blocks only: their multi-block shapes have >= 2 energy blocks)
                cases.append({"type": "deriv", "entry": entry, "wt": wt, "shape": shape, "dt": float(rng.choice([0.01, 0.03])),
                              "s": int(rng.integers(1 << 30)), "group": "d-%s-%s-%d" % (entry, wt, rep), "cost": 60})
    for wt in (("uhf",) if q else ("rhf", "uhf")):
        for rep in range(1 if q else 3):
            cases.append({"type": "rdm2", "wt": wt, "shape": [2, 1, 1], "dt": 0.02, "s": int(rng.integers(1 << 30)), "group": "r2-%s-%d" % (wt, rep), "cost": 60})
    # the real driver in reverse / forward mode with an explicit observable (spin-free matrix for restricted walkers, spin-stacked for
    # unrestricted ones), in the exactly solvable one-body limit: rdm1_afqmc.npz and the observable column against the analytic values
    for wt in ("rhf", "uhf"):
        for mode in (("reverse",) if q else ("reverse", "forward")):
            cases.append({"type": "driverobs", "wt": wt, "ad_mode": mode, "s": int(rng.integers(1 << 30)), "group": "drvobs-%s-%s" % (wt, mode), "cost": 50})
    # symmetric lattice Hamiltonians: exactly degenerate one-body levels, an observable that couples them (entry points without orbital
    # relaxation: the derivative then flows through the propagation intermediates only)
    for wt in ("rhf", "uhf"):
        for entry in (("ad_norot",) if q else ("ad_norot", "ad_nosr_norot")):
            cases.append({"type": "ringderiv", "wt": wt, "entry": entry, "shape": [3, 2, 2], "dt": 0.02, "s": int(rng.integers(1 << 30)),
                          "group": "ring-%s-%s" % (wt, entry), "cost": 50})
    # lattice-type two-body terms (site-diagonal, symmetry-equivalent sites => exactly tied pivots in the re-decomposition of the ERI tensor)
    for wt in (("rhf", "uhf") if q else ("rhf", "uhf", "rhf", "uhf")):
        cases.append({"type": "rdm2site", "wt": wt, "shape": [2, 1, 2], "dt": 0.02, "s": int(rng.integers(1 << 30)),
                      "group": "r2s-%s-%d" % (wt, len(cases)), "cost": 40})
    return cases


def _pivoted_cholesky_ref(mat, nchol):
    """textbook pivoted (modified) Cholesky in NumPy, largest residual diagonal first, lowest index on ties"""
    mat = np.asarray(mat, dtype=float)
    d = mat.diagonal().copy()
    vecs = []
    for _ in range(nchol):
        nu = int(np.argmax(np.abs(d)))
        r = mat[nu].copy()
        for v in vecs:
            r -= v[nu] * v
        v = r / np.sqrt(abs(d[nu]))
        vecs.append(v)
        d = d - v * v
    return np.array(vecs)


def run_driverobs(case):
    import contextlib
    import io
    import os
    import shutil
    import tempfile

    import jax.numpy as jnp

    from ad_afqmc import config, driver, sampling
    from checks.c12 import build

    rng = np.random.default_rng(case["s"])
    wt = case["wt"]
    nw, dt = 6, 0.02
    S = build(wt, rng, nw, dt)
    norb = S["norb"]
    na, nb = S["nelec"]
    hd = S["ham_data"]
    h1 = np.asarray(hd["h1"])
    h1s = [(h1[s_] + h1[s_].T) / 2 for s_ in range(2)]
    if wt == "rhf":
        h1s = [(h1s[0] + h1s[1]) / 2] * 2
    rho, e_exact = [], float(np.asarray(hd["h0"]))
    for s_, n_s in ((0, na), (1, nb)):
        w_, v_ = np.linalg.eigh(h1s[s_])
        rho.append(v_[:, :n_s] @ v_[:, :n_s].T)
        e_exact += float(np.sum(w_[:n_s]))
    O = rng.normal(size=(norb, norb))
    O = (O + O.T) / 2
    const = float(rng.normal())
    if wt == "rhf":
        obs = [jnp.array(O), const]                 # what mpi_jax builds from observable.h5 for restricted walkers
        resp = float(np.sum(rho[0] * O) + np.sum(rho[1] * O)) + const
    else:
        O2 = rng.normal(size=(norb, norb))
        O2 = (O2 + O2.T) / 2
        obs = [jnp.array(np.array([O, O2])), const]
        resp = float(np.sum(rho[0] * O) + np.sum(rho[1] * O2)) + const
    h_raw = {"h0": hd["h0"], "h1": hd["h1"], "chol": jnp.zeros_like(hd["chol"]), "ene0": 0.0}
    nblocks = 4
    smp = sampling.sampler(n_prop_steps=3, n_ene_blocks=1, n_sr_blocks=2, n_blocks=nblocks)
    options = {"dt": dt, "n_walkers": nw, "n_prop_steps": 3, "n_ene_blocks": 1, "n_sr_blocks": 2, "n_blocks": nblocks, "n_ene_blocks_eql": 1, "n_sr_blocks_eql": 1,
               "n_eql": 1, "seed": case["s"] % 65521, "ad_mode": case["ad_mode"], "orbital_rotation": True, "do_sr": True, "walker_type": wt, "symmetry": False,
               "save_walkers": False, "trial": "rhf" if wt == "rhf" else "uhf", "ene0": 0.0, "free_projection": False, "n_batch": 1}
    wd = dict(S["wave_data"])
    wd.pop("rdm1", None)
    cwd0 = os.getcwd()
    tmp = tempfile.mkdtemp(prefix="verif_c06drv_")
    os.chdir(tmp)
    try:
        with contextlib.redirect_stdout(io.StringIO()):
            e, err = driver.afqmc(h_raw, S["ham"], S["prop"], S["trial"], wd, smp, obs, options, config.not_MPI())
        rows = np.loadtxt("samples_raw.dat").reshape(-1, 3)
        rdm = np.load("rdm1_afqmc.npz")["rdm1"] if case["ad_mode"] == "reverse" else None
    finally:
        os.chdir(cwd0)
        shutil.rmtree(tmp, ignore_errors=True)
    key = "C06/driver-observable/%s/%s" % (case["ad_mode"], wt)
    events = [judge("driver/one-body-block-energies", float(np.max(np.abs(rows[:, 1] - e_exact))), 2e-5 * max(1.0, abs(e_exact)), key + "/energy", exact=e_exact),
              judge("driver/observable-column-is-tr-rho-O-plus-constant", float(np.max(np.abs(rows[:, 2] - resp))), 2e-5 * max(1.0, abs(resp)), key + "/observable",
                    got=rows[:, 2].tolist(), exact=resp)]
    if rdm is not None:
        events.append(judge("driver/rdm1-file-is-the-exact-density-matrix-per-spin", max(float(np.max(np.abs(rdm[0] - rho[0]))), float(np.max(np.abs(rdm[1] - rho[1])))), 2e-5,
                            key + "/rdm1", shape=list(rdm.shape), trace=[float(np.trace(rdm[0])), float(np.trace(rdm[1]))], nelec=[na, nb]))
    return {"events": events, "nontrivial": True, "sample": {"wt": wt, "ad_mode": case["ad_mode"], "observable_column": rows[:, 2].tolist(), "exact": resp},
            "counters": {"vjp_calls": 0, "jvp_calls": 0, "one_body_limit": 0, "driver_observable_runs": 1}}


def run_ringderiv(case):
    import jax
    import jax.numpy as jnp
    from jax import random

    from ad_afqmc import hamiltonian, propagation, sampling, wavefunctions

    rng = np.random.default_rng(case["s"])
    wt = case["wt"]
    n = 4
    hop = np.zeros((n, n))
    for i in range(n):
        hop[i, (i + 1) % n] = hop[(i + 1) % n, i] = -1.0
    u = float(rng.choice([1.0, 2.0]))
    chol = np.zeros((n, n, n))
    for g in range(n):
        chol[g, g, g] = np.sqrt(u)
    ne = (1, 1)
    w_, v_ = np.linalg.eigh(hop)   # levels -2, 0, 0, 2
    if wt == "rhf":
        trial = wavefunctions.rhf(n, ne)
        wd = {"mo_coeff": jnp.array(v_[:, :1])}
        prop = propagation.propagator_restricted(dt=case["dt"], n_walkers=NWALK)
    else:
        trial = wavefunctions.uhf(n, ne)
        wd = {"mo_coeff": [jnp.array(v_[:, :1]), jnp.array(v_[:, :1])]}
        prop = propagation.propagator_unrestricted(dt=case["dt"], n_walkers=NWALK)
    wd["rdm1"] = trial.get_rdm1(wd)
    ham = hamiltonian.hamiltonian(n)
    hd = trials.ham_data_of(0.0, np.array([hop, hop]), chol.reshape(n, -1))
    hd = ham.build_measurement_intermediates(hd, trial, wd)
    hd = ham.build_propagation_intermediates(hd, prop, trial, wd)
    S = {"trial": trial, "wave_data": wd, "norb": n, "nelec": ne}
    w0 = afqmc.noisy_walkers(rng, S, NWALK, noise=0.15, walker_type=wt)
    pd = prop.init_prop_data(trial, wd, hd, w0)
    pd["key"] = random.PRNGKey(case["s"] % 65521)
    smp = sampling.sampler(n_prop_steps=case["shape"][0], n_ene_blocks=case["shape"][1], n_sr_blocks=case["shape"][2], n_blocks=1)
    fn = _fn(case["entry"], smp)
    O = rng.normal(size=(n, n))
    O = (O + O.T) / 2
    Oj = jnp.array(np.array([O, O]))
    wrapper = lambda x, y, z: fn(ham, hd, x, y, prop, z, trial, wd)
    ptan = _tangent(pd)
    e0, d0, _ = jax.jvp(wrapper, (0.0, Oj, afqmc.copy_pd(pd)), (1.0, 0.0 * Oj, ptan), has_aux=True)
    fds = {}
    for eps in (1e-3, 2e-4):
        ep, _ = wrapper(eps, Oj, afqmc.copy_pd(pd))
        em, _ = wrapper(-eps, Oj, afqmc.copy_pd(pd))
        fds[eps] = (float(ep) - float(em)) / (2 * eps)
    fds["richardson"] = (25.0 * fds[2e-4] - fds[1e-3]) / 24.0
    best = min(abs(v - float(d0)) for v in fds.values())
    key = "C06/ring/%s/%s" % (case["entry"], wt)
    events = [judge("derivative/jvp-equals-finite-difference-with-degenerate-one-body-levels", best / max(1.0, abs(float(d0))), 2e-7, key + "/jvp-vs-fd",
                    jvp=float(d0), fd={str(k): v for k, v in fds.items()}, levels=w_.tolist())]
    return {"events": events, "nontrivial": abs(float(d0)) > 1e-8, "sample": {"wt": wt, "entry": case["entry"], "jvp": float(d0), "fd": fds["richardson"]},
            "counters": {"vjp_calls": 0, "jvp_calls": 1, "one_body_limit": 0, "fd_evals": 4, "ring_derivatives": 1}}


def run_rdm2site(case):
    """propagate_phaseless_ad_1 handed the ERI tensor of a site-diagonal interaction with equivalent sites must be the same
    deterministic function as propagate_phaseless_ad at zero coupling on the Cholesky vectors of that tensor (the 2-RDM entry point
    may not change the Hamiltonian it is differentiated against)"""
    import jax.numpy as jnp
    from jax import random

    from ad_afqmc import hamiltonian, propagation, sampling, wavefunctions
    from checks import c18

    rng = np.random.default_rng(case["s"])
    wt = case["wt"]
    norb = 4
    ne = (2, 2) if wt == "rhf" else (2, 1)
    us = np.array([[1.0, 1.0, 1.0, 1.0], [1.2, 1.2, 0.6, 0.6], [0.8, 1.4, 0.8, 1.4]][int(rng.integers(3))])
    hop = np.zeros((norb, norb))
    for i in range(norb):
        hop[i, (i + 1) % norb] = hop[(i + 1) % norb, i] = -1.0
    hm = hop + np.diag(rng.normal(size=norb) * 0.3)
    h1 = np.array([hm, hm])
    chol = np.zeros((norb, norb, norb))
    for g in range(norb):
        chol[g, g, g] = np.sqrt(us[g])
    chol = chol.reshape(norb, -1)
    eri = np.einsum("gj,gl->jl", chol, chol)
    ref = _pivoted_cholesky_ref(eri, norb)
    events = []
    key = "C06/2rdm-site/%s" % wt
    events.append(judge("2rdm-site/reference-decomposition-reproduces-eri", float(np.max(np.abs(ref.T @ ref - eri))), 1e-12, key + "/harness-reference"))
    if wt == "rhf":
        trial = wavefunctions.rhf(norb, ne)
        C0 = c18.occ(hm, ne[0])[0]
        wd = {"mo_coeff": jnp.array(C0)}
        prop = propagation.propagator_restricted(dt=case["dt"], n_walkers=NWALK)
    else:
        trial = wavefunctions.uhf(norb, ne)
        C0 = [c18.occ(hm, ne[0])[0], c18.occ(hm, ne[1])[0]]
        wd = {"mo_coeff": [jnp.array(C0[0]), jnp.array(C0[1])]}
        prop = propagation.propagator_unrestricted(dt=case["dt"], n_walkers=NWALK)
    wd["rdm1"] = trial.get_rdm1(wd)
    ham = hamiltonian.hamiltonian(norb)
    S = {"trial": trial, "wave_data": wd, "norb": norb, "nelec": ne}
    w0 = afqmc.noisy_walkers(rng, S, NWALK, noise=0.1, walker_type=wt)
    smp = sampling.sampler(n_prop_steps=case["shape"][0], n_ene_blocks=case["shape"][1], n_sr_blocks=case["shape"][2], n_blocks=1)
    out = {}
    for which, ch in (("ad_1", chol), ("ad", ref)):
        hd = trials.ham_data_of(0.0, h1, ch)
        hd = ham.build_measurement_intermediates(hd, trial, wd)
        hd = ham.build_propagation_intermediates(hd, prop, trial, wd)
        pd = prop.init_prop_data(trial, wd, hd, w0)
        pd["key"] = random.PRNGKey(case["s"] % 65521)
        if which == "ad_1":
            e, pd2 = smp.propagate_phaseless_ad_1(ham, hd, 1.0, jnp.array(eri.reshape(norb, norb, norb, norb)), prop, pd, trial, wd)
        else:
            e, pd2 = smp.propagate_phaseless_ad(ham, hd, 0.0, jnp.zeros((2, norb, norb)), prop, pd, trial, wd)
        out[which] = (float(e), np.asarray(pd2["weights"]))
    events.append(judge("2rdm-site/primal-equals-coupling-entry-point-on-the-same-hamiltonian", abs(out["ad_1"][0] - out["ad"][0]), 1e-7 * max(1.0, abs(out["ad"][0])),
                        key + "/primal", ad_1=out["ad_1"][0], ad=out["ad"][0], u=us.tolist()))
    events.append(judge("2rdm-site/weights-equal-coupling-entry-point", float(np.max(np.abs(out["ad_1"][1] - out["ad"][1]))), 1e-7, key + "/weights"))
    return {"events": events, "nontrivial": True, "sample": {"wt": wt, "u": us.tolist(), "energy_ad_1": out["ad_1"][0], "energy_ad": out["ad"][0]},
            "counters": {"vjp_calls": 0, "jvp_calls": 0, "one_body_limit": 0, "site_2rdm": 1}}


def _fn(entry, smp):
    return {"ad": smp.propagate_phaseless_ad, "ad_nosr": smp.propagate_phaseless_ad_nosr, "ad_norot": smp.propagate_phaseless_ad_norot,
            "ad_nosr_norot": smp.propagate_phaseless_ad_nosr_norot, "ad_1": smp.propagate_phaseless_ad_1}[entry]


def _tangent(pd):
    """prop_data tangent exactly as driver.afqmc builds it"""
    from jax import dtypes

    t = {}
    for x in pd:
        if isinstance(pd[x], list):
            t[x] = [np.zeros_like(y) for y in pd[x]]
        elif pd[x].dtype == "uint32":
            t[x] = np.zeros(pd[x].shape, dtype=dtypes.float0)
        else:
            t[x] = np.zeros_like(pd[x])
    return t


def run_deriv(case):
    import jax
    import jax.numpy as jnp
    from jax import random

    from ad_afqmc import sampling
    from checks.c12 import build

    rng = np.random.default_rng(case["s"])
    wt = case["wt"]
    S = build(wt, rng, NWALK, case["dt"])
    norb = S["norb"]
    na, nb = S["nelec"]
    ham, hd, prop, trial, wd = S["ham"], S["ham_data"], S["prop"], S["trial"], S["wave_data"]
    smp = sampling.sampler(n_prop_steps=case["shape"][0], n_ene_blocks=case["shape"][1], n_sr_blocks=case["shape"][2], n_blocks=1)
    fn = _fn(case["entry"], smp)
    w0 = afqmc.noisy_walkers(rng, S, NWALK, noise=0.1, walker_type=wt)
    pd = prop.init_prop_data(trial, wd, hd, w0)
    pd["key"] = random.PRNGKey(case["s"] % 65521)
    wrapper = lambda x, y, z: fn(ham, hd, x, y, prop, z, trial, wd)
    events = []
    cnt = {"jvp_calls": 0, "vjp_calls": 0, "fd_evals": 0, "discontinuities": 0, "one_body_limit": 0}
    key = "C06/%s/%s" % (case["entry"], wt)
    observables = []
    a = rng.normal(size=(2, norb, norb))
    observables.append(("symmetric", (a + a.transpose(0, 2, 1)) / 2))
    observables.append(("non-symmetric", rng.normal(size=(2, norb, norb))))
    b = rng.normal(size=(norb, norb))
    observables.append(("spin-free-non-symmetric", np.array([b, b])))
    ptan = _tangent(pd)
    # ---- reverse mode, exactly as the driver: coupling 1, operator 0
    rdm_op = jnp.zeros((2, norb, norb))
    e_v, vjp_fun, pd_v = jax.vjp(wrapper, 1.0, rdm_op, pd, has_aux=True)
    rdm1 = np.asarray(vjp_fun(1.0)[1])
    cnt["vjp_calls"] += 1
    # ---- plain sampler primal at zero coupling (same block structure only for entries with reconfiguration, or n_sr = 1)
    e_plain = None
    if case["entry"] in ("ad", "ad_norot") or case["shape"][2] == 1:
        e_plain, _ = smp.propagate_phaseless(ham, hd, prop, afqmc.copy_pd(pd), trial, wd)
        e_plain = float(e_plain)
    sample = {"entry": case["entry"], "wt": wt, "shape": case["shape"], "energy_vjp": float(e_v), "energy_plain": e_plain}
    nontriv = False
    for name, O in observables:
        Oj = jnp.array(O)
        e_j, d_j, pd_j = jax.jvp(wrapper, (0.0, Oj, pd), (1.0, 0.0 * Oj, ptan), has_aux=True)
        cnt["jvp_calls"] += 1
        e_j, d_j = float(e_j), float(d_j)
        if not np.isfinite(d_j):
            events.append(ev("derivative/finite", False, key=key + "/jvp-finite", observable=name))
            continue
        # (ii) reverse-mode density matrix contracted with the observable == forward-mode response
        contr = float(np.sum(rdm1 * O))
        events.append(judge("derivative/vjp-contracted-equals-jvp", abs(contr - d_j) / max(1.0, abs(d_j)), 1e-9, key + "/vjp-vs-jvp/" + name, jvp=d_j, vjp=contr))
        # (iii) primal values
        events.append(judge("primal/jvp-equals-vjp", abs(e_j - float(e_v)) / max(1.0, abs(e_j)), 1e-12, key + "/primal-jvp-vjp"))
        if e_plain is not None:
            events.append(judge("primal/equals-plain-sampler", abs(e_j - e_plain) / max(1.0, abs(e_j)), 1e-10, key + "/primal-plain", ad=e_j, plain=e_plain))
        # (i) finite differences of the same function
        fds = {}
        for eps in (1e-3, 1e-4, 1e-5):
            ep, _ = wrapper(eps, Oj, pd)
            em, _ = wrapper(-eps, Oj, pd)
            fds[eps] = (float(ep) - float(em)) / (2 * eps)
            cnt["fd_evals"] += 2
        errs = {eps: abs(fds[eps] - d_j) for eps in fds}
        best = min(errs.values())
        scale = max(1.0, abs(d_j))
        if best > 2e-7 * scale:
            # stiff response (large higher derivatives): continue the ladder while the finite difference is still converging
            for eps in (1e-6, 1e-7):
                ep, _ = wrapper(eps, Oj, pd)
                em, _ = wrapper(-eps, Oj, pd)
                fds[eps] = (float(ep) - float(em)) / (2 * eps)
                errs[eps] = abs(fds[eps] - d_j)
                cnt["fd_evals"] += 2
            best = min(errs.values())
        seq = [errs[e_] for e_ in sorted(errs, reverse=True)]   # errors from the largest to the smallest step
        # "still converging": the error keeps shrinking by >= 10x per decade down to the finest step (a wrong derivative plateaus at its error)
        converging = len(seq) == 5 and all(seq[i + 1] <= seq[i] / 10.0 for i in range(1, 4)) and seq[-1] <= 1e-4 * scale
        # divergence like 1/eps: the +-eps points straddle a discontinuity of the piecewise-smooth estimator
        diverging = abs(fds[1e-5]) > 5 * abs(fds[1e-4]) > 25 * abs(fds[1e-3]) * 0.2 and abs(fds[1e-5] - fds[1e-4]) > 1e3 * scale * 1e-5 and not converging
        if best <= 2e-7 * scale:
            events.append(judge("derivative/jvp-equals-finite-difference", best / scale, 2e-7, key + "/jvp-vs-fd/" + name, jvp=d_j, fd=fds))
            nontriv = nontriv or abs(d_j) > 1e-6
        elif converging:
            events.append(ev("derivative/jvp-is-limit-of-finite-differences", True, seq[-1] / scale, 1e-4, key + "/jvp-vs-fd-stiff/" + name, jvp=d_j, fd=fds, errors=seq))
            cnt["stiff_cases"] = cnt.get("stiff_cases", 0) + 1
            nontriv = True
        elif diverging:
            cnt["discontinuities"] += 1
            events.append(ev("derivative/discontinuity-excluded", None, key="C06/discontinuity", fd=fds, jvp=d_j))
        else:
            events.append(judge("derivative/jvp-equals-finite-difference", best / scale, 2e-7, key + "/jvp-vs-fd/" + name, jvp=d_j, fd=fds, errors=seq))
        sample["jvp_" + name] = d_j
        sample["fd_" + name] = fds[1e-4]
    # (iii-b) the same comparison from a state left by a previous block (pop_control shift != e_estimate, reconfigured walkers):
    # plain and AD entry points started from the SAME second-block state must still agree
    if e_plain is not None:
        from ad_afqmc import config

        pd2 = afqmc.copy_pd(pd_v)
        pd2 = prop.orthonormalize_walkers(pd2)
        pd2 = prop.stochastic_reconfiguration_global(pd2, config.not_a_comm())
        pd2["e_estimate"] = 0.9 * pd2["e_estimate"] + 0.1 * float(e_v)
        Oj = jnp.array(observables[0][1])
        e2_ad, d2, _ = jax.jvp(wrapper, (0.0, Oj, pd2), (1.0, 0.0 * Oj, _tangent(pd2)), has_aux=True)
        e2_plain, _ = smp.propagate_phaseless(ham, hd, prop, afqmc.copy_pd(pd2), trial, wd)
        cnt["jvp_calls"] += 1
        events.append(judge("primal/equals-plain-sampler-second-block", abs(float(e2_ad) - float(e2_plain)) / max(1.0, abs(float(e2_plain))), 1e-10,
                            key + "/primal-plain-second-block", ad=float(e2_ad), plain=float(e2_plain)))
    # (v) per-spin trace of the AD density matrix with a single energy block
    if case["shape"][1] == 1 and case["shape"][2] == 1:
        tr = [float(np.trace(rdm1[0])), float(np.trace(rdm1[1]))]
        events.append(judge("rdm1/per-spin-trace-equals-electron-count", max(abs(tr[0] - na), abs(tr[1] - nb)), 1e-8, key + "/trace", trace=tr, nelec=[na, nb]))
        sample["rdm1_trace"] = tr
    # (iv) exactly solvable one-body limit: no two-body term
    hd0 = dict(hd)
    hd0["chol"] = jnp.zeros_like(hd["chol"])
    hd0 = ham.build_measurement_intermediates(hd0, trial, wd)
    hd0 = ham.build_propagation_intermediates(hd0, prop, trial, wd)
    h1 = np.asarray(S["ham_data"]["h1"])
    h1s = [(h1[s] + h1[s].T) / 2 for s in range(2)]
    if wt == "rhf":
        hav = (h1s[0] + h1s[1]) / 2
        h1s = [hav, hav]
    wrapper0 = lambda x, y, z: fn(ham, hd0, x, y, prop, z, trial, wd)
    gaps_ok = True
    e_exact = float(np.asarray(hd["h0"]))
    rho = []
    for s, n_s in ((0, na), (1, nb)):
        w_, v_ = np.linalg.eigh(h1s[s])
        e_exact += float(np.sum(w_[:n_s]))
        if 0 < n_s < norb and w_[n_s] - w_[n_s - 1] < 0.5:
            gaps_ok = False
        rho.append(v_[:, :n_s] @ v_[:, :n_s].T)
    if gaps_ok:
        # the trial must be the one-body ground state for the no-rotation entry points (with rotation optimize() finds it)
        wd0 = dict(wd)
        if case["entry"] in ("ad_norot", "ad_nosr_norot"):
            if wt == "rhf":
                wd0["mo_coeff"] = jnp.array(np.linalg.eigh(h1s[0])[1][:, :na])
            else:
                wd0["mo_coeff"] = [jnp.array(np.linalg.eigh(h1s[0])[1][:, :na]), jnp.array(np.linalg.eigh(h1s[1])[1][:, :nb])]
            hd0 = ham.build_measurement_intermediates(dict(hd0), trial, wd0)
            wrapper0 = lambda x, y, z: fn(ham, hd0, x, y, prop, z, trial, wd0)
        name, O = observables[1]
        Oj = jnp.array(O)
        pd0 = afqmc.copy_pd(pd)
        e0, d0, _ = jax.jvp(wrapper0, (0.0, Oj, pd0), (1.0, 0.0 * Oj, ptan), has_aux=True)
        cnt["jvp_calls"] += 1
        Osym = [(O[s] + O[s].T) / 2 for s in range(2)]
        if wt == "rhf":
            oav = (Osym[0] + Osym[1]) / 2
            Osym = [oav, oav]
        resp = float(np.sum(rho[0] * Osym[0]) + np.sum(rho[1] * Osym[1]))
        events.append(judge("one-body-limit/energy-is-sum-of-occupied-eigenvalues", abs(float(e0) - e_exact), 1e-9 * max(1.0, abs(e_exact)), key + "/one-body-energy",
                            got=float(e0), exact=e_exact))
        if case["entry"] in ("ad", "ad_nosr"):
            # the *orbital-relaxed* response is exact for any walker population (the relaxed trial is an exact eigenstate);
            # without relaxation the response is the mixed estimator of O over the walkers, which is not tr(rho O)
            events.append(judge("one-body-limit/response-is-tr-rho-O", abs(float(d0) - resp), 1e-8 * max(1.0, abs(resp)), key + "/one-body-response",
                                got=float(d0), exact=resp))
        cnt["one_body_limit"] += 1
        sample["one_body"] = {"energy": float(e0), "exact": e_exact, "response": float(d0), "tr_rho_O": resp}
        if case["entry"] in ("ad", "ad_nosr"):
            # the same limit with a SMALL (but far from degenerate) HOMO-LUMO gap: the orbital response scales like 1/gap, which is where an
            # approximate eigenvector derivative inside the differentiable SCF shows
            g = float(np.random.default_rng(case["s"] + 77).uniform(0.03, 0.1))
            h_small, rho_s, e_s = [], [], float(np.asarray(hd["h0"]))
            for s_, n_s in ((0, na), (1, nb)):
                w_, v_ = np.linalg.eigh(h1s[s_])
                w2 = w_.copy()
                if 0 < n_s < norb:
                    w2[n_s:] += (w_[n_s - 1] + g) - w_[n_s]
                h_small.append((v_ * w2) @ v_.T)
                rho_s.append(v_[:, :n_s] @ v_[:, :n_s].T)
                e_s += float(np.sum(w2[:n_s]))
            if wt == "rhf":
                h_small = [h_small[0], h_small[0]]
            hd_s = dict(hd)
            hd_s["chol"] = jnp.zeros_like(hd["chol"])
            hd_s["h1"] = jnp.array(np.array(h_small))
            hd_s = ham.build_measurement_intermediates(hd_s, trial, wd)
            hd_s = ham.build_propagation_intermediates(hd_s, prop, trial, wd)
            wrapper_s = lambda x, y, z: fn(ham, hd_s, x, y, prop, z, trial, wd)
            e1, d1, _ = jax.jvp(wrapper_s, (0.0, Oj, afqmc.copy_pd(pd)), (1.0, 0.0 * Oj, ptan), has_aux=True)
            cnt["jvp_calls"] += 1
            resp_s = float(np.sum(rho_s[0] * Osym[0]) + np.sum(rho_s[1] * Osym[1]))
            events.append(judge("one-body-limit/small-gap-energy", abs(float(e1) - e_s), 1e-9 * max(1.0, abs(e_s)) / g, key + "/one-body-energy-small-gap", gap=g))
            events.append(judge("one-body-limit/small-gap-response-is-tr-rho-O", abs(float(d1) - resp_s), 1e-9 * max(1.0, abs(resp_s)) / g, key + "/one-body-response-small-gap",
                                got=float(d1), exact=resp_s, gap=g))
            cnt["one_body_small_gap"] = cnt.get("one_body_small_gap", 0) + 1
    return {"events": events, "nontrivial": nontriv, "sample": sample, "counters": cnt}


def run_rdm2(case):
    import jax
    import jax.numpy as jnp
    from jax import random

    from ad_afqmc import sampling
    from checks.c12 import build

    rng = np.random.default_rng(case["s"])
    wt = case["wt"]
    S = build(wt, rng, NWALK, case["dt"])
    norb = S["norb"]
    ham, hd, prop, trial, wd = S["ham"], S["ham_data"], S["prop"], S["trial"], S["wave_data"]
    smp = sampling.sampler(n_prop_steps=case["shape"][0], n_ene_blocks=case["shape"][1], n_sr_blocks=case["shape"][2], n_blocks=1)
    w0 = afqmc.noisy_walkers(rng, S, NWALK, noise=0.1, walker_type=wt)
    pd = prop.init_prop_data(trial, wd, hd, w0)
    pd["key"] = random.PRNGKey(case["s"] % 65521)
    chol = np.asarray(hd["chol"])
    nchol = chol.shape[0]
    eri = np.einsum("gj,gl->jl", chol, chol).reshape(norb, norb, norb, norb)
    wrapper = lambda x, y, z: smp.propagate_phaseless_ad_1(ham, hd, x, y, prop, z, trial, wd)
    events = []
    key = "C06/2rdm/%s" % wt
    e_v, vjp_fun, pd_v = jax.vjp(wrapper, 1.0, jnp.array(eri), pd, has_aux=True)
    g = np.asarray(vjp_fun(1.0)[1])
    fin = bool(np.all(np.isfinite(g)))
    events.append(ev("2rdm/gradient-finite", fin, key=key + "/finite"))
    # (no primal comparison with the plain sampler here: the entry point re-derives pivoted Cholesky vectors from the ERI tensor,
    # i.e. a different but equivalent Hubbard-Stratonovich decomposition, so the random walk differs legitimately)
    e_plain = float("nan")
    nontriv = False
    if fin:
        # rank-preserving symmetric direction: perturb the Cholesky vectors themselves
        dch = rng.normal(size=chol.shape).reshape(nchol, norb, norb)
        dch = ((dch + dch.transpose(0, 2, 1)) / 2).reshape(nchol, -1)
        def eri_of(t):
            c = chol + t * dch
            return np.einsum("gj,gl->jl", c, c).reshape(norb, norb, norb, norb)
        d_eri = (eri_of(1e-6) - eri_of(-1e-6)) / 2e-6
        ana = float(np.sum(g * d_eri))
        fds = {}
        for eps in (1e-3, 1e-4):
            ep, _ = wrapper(1.0, jnp.array(eri_of(eps)), pd)
            em, _ = wrapper(1.0, jnp.array(eri_of(-eps)), pd)
            fds[eps] = (float(ep) - float(em)) / (2 * eps)
        # central differences carry an O(eps^2) truncation error: also accept the Richardson extrapolation of the two steps
        fds["richardson"] = (100.0 * fds[1e-4] - fds[1e-3]) / 99.0
        best = min(abs(v - ana) for v in fds.values())
        events.append(judge("2rdm/vjp-equals-directional-finite-difference", best / max(1.0, abs(ana)), 5e-6, key + "/vjp-vs-fd", vjp=ana, fd={str(k): v for k, v in fds.items()}))
        nontriv = abs(ana) > 1e-6
    return {"events": events, "nontrivial": nontriv, "sample": {"wt": wt, "energy": float(e_v), "plain": float(e_plain)},
            "counters": {"vjp_calls": 1, "jvp_calls": 0, "one_body_limit": 0}}


def run_case(case):
    return {"deriv": run_deriv, "rdm2": run_rdm2, "rdm2site": run_rdm2site, "driverobs": run_driverobs, "ringderiv": run_ringderiv}[case["type"]](case)
