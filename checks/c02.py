"""C02 - local energy equals <psi_T|H|phi>/<psi_T|phi> with H built in Fock space from (h0, h1, chol)."""
import numpy as np

from vlib import fockref, measure, trials
from vlib.monitor import ev, judge

ID = "C02"
LEVEL_TEXT = ("Local energies returned by every trial kind / entry point are compared with the mixed estimator evaluated with an "
              "explicit Fock-space Hamiltonian on generated cases; finite-difference kinds additionally through a step ladder "
              "(order of convergence). Held = agreed on all K generated cases.")
LEVEL_NOTE = "trusted: NumPy/SciPy, vlib.fockref; tolerances: 1e-9 S closed formulas, 2e-4 S float32 kinds, 1e-5 S AD/FD kinds + slope >= 1.7"
TECHNIQUE = "runtime monitoring with an independent Fock-space reference-model oracle on call/return values"
RULE = ("cases = trial kind x norb x (n_up,n_dn) x seed, Hamiltonian = random h0, symmetric h1 (spin-dependent only for "
        "UHF/GHF/NOCI/multi-Slater/UCISD/GCISD on unrestricted walkers), 1-3 symmetric Cholesky matrices, intermediates built "
        "through ham.build_measurement_intermediates; non-trivial = |<psi|phi>| >= 0.05 |psi||phi| and Green's-function "
        "denominator cond <= 1e4 (walkers are redrawn up to 30 times to satisfy it, else skipped and counted)")
MIN_NONTRIVIAL = {"quick": 80, "thorough": 600}
TIMEOUT = {"quick": 1800, "thorough": 9000}
ASSUMPTIONS = [
    "real trial parameters, complex walkers, symmetric h1 and Cholesky matrices",
    "cisd/cisd_faster/ucisd contract in complex64/float32 by design: tolerance 2e-4 S",
    "AD kinds use central finite differences (eps = 1e-4 default): tolerance 1e-5 S plus measured quadratic convergence in eps",
    "restricted entry points of rhf / restricted CI / AD kinds are also driven with spin-dependent h1 and judged against H built from the spin average (what the statement says they see); "
    "restricted entry points of uhf / ghf / noci / hand-coded ucisd are driven with spin-independent h1 only",
]
REQUIRED_COUNTERS = {"energy_u": 40, "energy_r": 30, "batched": 10, "ladder": 4, "rebuild": 20}
FLOAT32_KINDS = ("cisd", "cisd_faster", "ucisd")
AD_KINDS = ("multislater",) + trials.AD_CI
# kinds whose restricted-walker entry point is defined with the spin-averaged one-body matrix
AVG_KINDS = ("rhf", "CISD", "CISD_THC", "cisd", "cisd_faster", "multislater", "UCISD", "GCISD")


def gen_cases(tier, seed):
    rng = np.random.default_rng([seed, 2])
    q = tier == "quick"
    cases = []
    for kind in trials.ALL_KINDS:
        norbs = [3, 4] if q else [2, 3, 4, 5]
        if kind in AD_KINDS + FLOAT32_KINDS and not q:
            norbs = [2, 3, 4]
        for norb in norbs:
            secs = measure.sectors(norb, kind)
            lim = 3 if q else 6
            if len(secs) > lim:
                idx = rng.choice(len(secs), size=lim, replace=False)
                secs = [secs[i] for i in sorted(idx)]
            for (na, nb) in secs:
                reps = 2 if q else 5
                for r in range(reps):
                    cases.append({"kind": kind, "norb": norb, "nelec": [na, nb], "nchol": int(rng.integers(1, 4)),
                                  "s": int(rng.integers(1 << 30)), "rep": r, "ladder": bool(kind in AD_KINDS and r == 0 and norb <= 4),
                                  "group": "%s-%d-%d-%d" % (kind, norb, na, nb),
                                  "cost": 6 if kind in AD_KINDS else 2})
    return cases


def _draw(rng, F, t, kind, norb, na, nb, restricted, tries=30):
    psi = t["psi"]
    npsi = np.linalg.norm(psi)
    for _ in range(tries):
        wu, wd = trials.rand_walker(rng, norb, na, nb)
        if restricted:
            wd = wu[:, :nb]
        phi = F.det(wu, wd)
        rel = abs(np.vdot(psi, phi)) / (npsi * np.linalg.norm(phi))
        cond = measure.cond_filter(kind, t, wu, wd)
        if rel >= 0.05 and cond <= 1e4:
            return wu, wd, phi, rel, cond
    return None


def _tol(kind, S):
    if kind in FLOAT32_KINDS:
        return 2e-4 * S
    if kind in AD_KINDS:
        return 1e-5 * S
    return 1e-9 * S


def run_case(case):
    import jax.numpy as jnp

    rng = np.random.default_rng(case["s"])
    kind, norb = case["kind"], case["norb"]
    na, nb = case["nelec"]
    F = fockref.get(norb)
    opts = {}
    if kind == "multislater":
        opts["ms_ref"] = ["inverted", "aufbau", "random", "closed"][case["rep"] % 4] if na == nb else ["inverted", "aufbau"][case["rep"] % 2]
        opts["ms_ndets"] = 10
    if kind in ("rhf", "uhf") and case["rep"] % 2 == 1:
        opts["complex_orbs"] = True   # these two kinds conjugate the trial orbitals consistently: complex orbitals are admissible
    t = trials.make(kind, norb, (na, nb), rng, **opts)
    trial, wd_ = t["trial"], t["wave_data"]
    events = []
    cnt = {"energy_u": 0, "energy_r": 0, "batched": 0, "ladder": 0, "skipped_conditioning": 0}
    key0 = "C02/%s" % kind
    nontrivial = 0
    sample = None
    entries = []
    if "u" in t["entries"]:
        entries.append("u")
    if "r" in t["entries"] or (kind in ("uhf", "ghf", "noci")):
        entries.append("r")
    for entry in entries:
        h0, h1, chol = measure.build_ham(rng, norb, case["nchol"], kind, entry)
        if entry == "r" and kind in AVG_KINDS and case["rep"] % 2 == 1:
            # restricted entry points of these kinds see only the spin average of the one-body matrices
            h0, h1, chol = trials.rand_ham(rng, norb, case["nchol"], spin_dep=True)
        hd = measure.intermediates(t, h0, h1, chol)
        if entry == "r" and kind in AVG_KINDS:
            hav = (h1[0] + h1[1]) / 2
            H = F.hamiltonian(h0, hav, hav, chol)
        else:
            H = F.hamiltonian(h0, h1[0], h1[1], chol)
        S = measure.ham_scale(h0, h1, chol)
        tol = _tol(kind, S)
        ws, refs = [], []
        for _ in range(4):
            d = _draw(rng, F, t, kind, norb, na, nb, entry == "r")
            if d is None:
                cnt["skipped_conditioning"] += 1
                continue
            wu, wd, phi, rel, cond = d
            ref = np.vdot(t["psi"], H @ phi) / np.vdot(t["psi"], phi)
            if entry == "u":
                e = complex(trial._calc_energy(jnp.array(wu), jnp.array(wd), hd, wd_))
            else:
                e = complex(trial._calc_energy_restricted(jnp.array(wu), hd, wd_))
            events.append(judge("energy/single-" + entry, abs(e - ref), tol, "%s/energy-%s" % (key0, entry),
                                code=e, ref=ref, S=S, ovl_rel=rel, spin_dep_h1=bool(np.any(h1[0] != h1[1]))))
            cnt["energy_" + entry] += 1
            nontrivial += 1
            ws.append((wu, wd))
            refs.append(ref)
            if len(ws) == 1:
                # the local energy is a ratio: it does not depend on the norm of the walker
                for sc_ in (1e-3, 1e2):
                    if entry == "u":
                        es_ = complex(trial._calc_energy(jnp.array(sc_ * wu), jnp.array(sc_ * wd), hd, wd_))
                    else:
                        es_ = complex(trial._calc_energy_restricted(jnp.array(sc_ * wu), hd, wd_))
                    events.append(judge("energy/walker-rescaled-" + entry, abs(es_ - ref), 10 * tol, "%s/energy-rescaled-%s" % (key0, entry), scale=sc_))
            if sample is None:
                sample = {"entry": entry, "code": e, "ref": ref, "S": S, "tol": tol, "ovl_rel": rel}
        # batched evaluation (walker order, n_batch)
        if len(ws) == 4 and case["rep"] == 0:
            import copy

            for n_batch in (1, 2):
                tb = copy.copy(trial)
                tb.n_batch = n_batch
                if entry == "u":
                    eb = np.asarray(tb.calc_energy([jnp.array(np.array([w[0] for w in ws])), jnp.array(np.array([w[1] for w in ws]))], hd, wd_))
                else:
                    eb = np.asarray(tb.calc_energy(jnp.array(np.array([w[0] for w in ws])), hd, wd_))
                r = max(abs(eb[i] - refs[i]) for i in range(4))
                events.append(judge("energy/batched-" + entry, r, tol, "%s/energy-batched-%s" % (key0, entry), n_batch=n_batch))
                cnt["batched"] += 1
        # finite-difference ladder: quadratic convergence in eps
        if case["ladder"] and ws:
            wu, wd = ws[0]
            errs = []
            epss = [4e-2, 2e-2, 1e-2]
            for eps in epss:
                rng_l = np.random.default_rng(case["s"])
                tl = trials.make(kind, norb, (na, nb), rng_l, eps=eps, **opts)
                hdl = measure.intermediates(tl, h0, h1, chol)
                if entry == "u":
                    e = complex(tl["trial"]._calc_energy(jnp.array(wu), jnp.array(wd), hdl, tl["wave_data"]))
                else:
                    e = complex(tl["trial"]._calc_energy_restricted(jnp.array(wu), hdl, tl["wave_data"]))
                errs.append(abs(e - refs[0]))
            cnt["ladder"] += 1
            if errs[0] > 1e-6 * S and errs[2] > 0:
                slope = np.log(errs[0] / errs[2]) / np.log(epss[0] / epss[2])
                events.append(ev("energy/fd-order-" + entry, bool(slope >= 1.7), float(2.0 - slope), 0.3,
                                 "%s/fd-order-%s" % (key0, entry), errs=errs, eps=epss, slope=float(slope)))
            else:
                events.append(ev("energy/fd-order-" + entry, None, key="%s/fd-order-%s/too-small-to-measure" % (key0, entry), errs=errs))
    # ---- rebuild: intermediates rebuilt on a ham_data that already carries the intermediates of OTHER trial parameters /
    # another Hamiltonian (what the AD samplers do after trial.optimize, and rotate_orbs users): nothing stale may survive
    if case["rep"] <= 1 and entries:
        from ad_afqmc import hamiltonian

        entry = entries[case["rep"] % len(entries)]
        h0a, h1a, chola = measure.build_ham(rng, norb, case["nchol"], kind, entry)
        hd_old = measure.intermediates(t, h0a, h1a, chola)
        rng2 = np.random.default_rng(case["s"] + 101)
        t2 = trials.make(kind, norb, (na, nb), rng2, **opts)
        h0b, h1b, cholb = measure.build_ham(rng2, norb, case["nchol"], kind, entry)
        hd_re = dict(hd_old)
        hd_re.update(trials.ham_data_of(h0b, h1b, cholb))
        try:
            hd_re = hamiltonian.hamiltonian(norb).build_measurement_intermediates(hd_re, t2["trial"], t2["wave_data"])
            Hb = F.hamiltonian(h0b, h1b[0], h1b[1], cholb)
            Sb = measure.ham_scale(h0b, h1b, cholb)
            d = _draw(rng2, F, t2, kind, norb, na, nb, entry == "r")
            if d is not None:
                wu, wd, phi, rel, cond = d
                ref = np.vdot(t2["psi"], Hb @ phi) / np.vdot(t2["psi"], phi)
                if entry == "u":
                    e = complex(t2["trial"]._calc_energy(jnp.array(wu), jnp.array(wd), hd_re, t2["wave_data"]))
                else:
                    e = complex(t2["trial"]._calc_energy_restricted(jnp.array(wu), hd_re, t2["wave_data"]))
                events.append(judge("energy/after-rebuild-" + entry, abs(e - ref), _tol(kind, Sb), "%s/energy-rebuild-%s" % (key0, entry), code=e, ref=ref))
                cnt["rebuild"] = cnt.get("rebuild", 0) + 1
        except Exception as exc:
            events.append(ev("energy/rebuild-raised", False, key="%s/energy-rebuild-exception" % key0, exc=repr(exc)[:300]))
    return {"events": events, "nontrivial": nontrivial > 0, "sample": sample, "counters": cnt}
