"""C18 - trial optimisation is a stable, differentiable SCF with orthonormal output."""
import numpy as np

from vlib.monitor import ev, judge

ID = "C18"
LEVEL_TEXT = ("Outputs of rhf/uhf.optimize are monitored for orthonormality on arbitrary inputs and compared with an independent NumPy "
              "Roothaan solver (and pyscf SCF on molecular integrals) for fixed-point stability and energy; the custom eigh JVP is "
              "compared with first-order perturbation theory and checked for finiteness on (near-)degenerate spectra. Held = on all "
              "generated problems.")
LEVEL_NOTE = "trusted: NumPy, pyscf SCF energies, textbook perturbation theory; conditioning rule: HOMO-LUMO gap >= 0.3 and the independent undamped iteration converges"
TECHNIQUE = "runtime monitoring: independent sequential SCF model + perturbation-theory oracle on call/return values"
RULE = ("cases = (rhf|uhf) x norb 3..6 x electron counts (closed, open, n_dn = 0) x random symmetric h1 with a spectral gap and 1-4 symmetric "
        "Cholesky matrices (plus H2/H4/LiH integrals) x start (exact solution, mildly perturbed, strongly perturbed/random); eigh cases = "
        "random symmetric matrices with min gap >= 1e-3, exactly degenerate, near-degenerate 1e-12..1e-4; non-trivial = interacting "
        "(chol != 0) problem or non-diagonal matrix")
MIN_NONTRIVIAL = {"quick": 60, "thorough": 500}
TIMEOUT = {"quick": 1200, "thorough": 5400}
ASSUMPTIONS = ["fixed-point / energy clauses only on gapped problems where an independent undamped Roothaan iteration from the same start converges within 30 iterations",
               "orthonormality and finiteness clauses on every input"]
REQUIRED_COUNTERS = {"optimize_calls": 40, "fixed_point": 10, "energy_match": 8, "eigh_jvp": 15, "eigh_degenerate": 10}


def gen_cases(tier, seed):
    rng = np.random.default_rng([seed, 18])
    q = tier == "quick"
    cases = []
    for kind in ("rhf", "uhf"):
        for norb in ([3, 4, 5] if q else [3, 4, 5, 6]):
            if kind == "rhf":
                secs = [(k, k) for k in range(1, norb)]
            else:
                secs = [(a, b) for a in range(1, norb) for b in range(0, a + 1)] + [(1, 2), (2, 3), (1, 3)][: max(0, norb - 2)]
            if q and len(secs) > 4:
                keep = [x for x in secs if x[1] > x[0]][:1]   # always one sector with more down than up electrons
                rest = [x for x in secs if x not in keep]
                secs = keep + [rest[i] for i in sorted(rng.choice(len(rest), 4 - len(keep), replace=False))]
            for (na, nb) in secs:
                for rep in range(2 if q else 20):
                    cases.append({"type": "scf", "kind": kind, "norb": norb, "nelec": [na, nb], "nchol": int(rng.integers(1, 5)),
                                  "s": int(rng.integers(1 << 30)), "group": "scf-%s-%d-%d-%d" % (kind, norb, na, nb), "cost": 3})
    for m in (["h2", "h4"] if q else ["h2", "h4", "lih", "h4ring"]):
        for kind in ("rhf", "uhf"):
            cases.append({"type": "mol", "kind": kind, "mol": m, "s": int(rng.integers(1 << 30)), "group": "mol-%s-%s" % (m, kind), "cost": 5})
    for rep in range(100 if q else 6000):
        if rep % (8 if q else 40) == 0:
            # differentiating THROUGH the SCF where the Fock spectrum has exact / near coincidences (rings, tied site energies)
            cases.append({"type": "scfjvp", "kind": ["rhf", "uhf"][(rep // (8 if q else 40)) % 2], "model": ["ring4", "ring6", "ties", "ring4"][(rep // (16 if q else 80)) % 4],
                          "s": int(rng.integers(1 << 30)), "group": "scfjvp-%d" % (rep % 4), "cost": 6})
        cases.append({"type": "eigh", "n": int(rng.integers(2, 8)), "spec": str(rng.choice(["generic", "generic", "shifted", "shifted", "degenerate", "near", "identity", "zero"])),
                      "s": int(rng.integers(1 << 30)), "group": "eigh-%d" % (rep % 6)})
    return cases


# -------------------------------------------------------------------- independent model
def fock_r(h, chol, P):
    f = h.copy()
    for L in chol:
        f += 2 * np.trace(L @ P) * L - L @ P @ L
    return f


def energy_r(h0, h, chol, P):
    e = h0 + 2 * np.trace(h @ P)
    for L in chol:
        e += 2 * np.trace(L @ P) ** 2 - np.trace(L @ P @ L @ P)
    return float(e)


def fock_u(h, chol, Pa, Pb):
    fa, fb = h[0].copy(), h[1].copy()
    for L in chol:
        j = np.trace(L @ (Pa + Pb)) * L
        fa += j - L @ Pa @ L
        fb += j - L @ Pb @ L
    return fa, fb


def energy_u(h0, h, chol, Pa, Pb):
    e = h0 + np.trace(h[0] @ Pa) + np.trace(h[1] @ Pb)
    for L in chol:
        e += 0.5 * (np.trace(L @ (Pa + Pb)) ** 2 - np.trace(L @ Pa @ L @ Pa) - np.trace(L @ Pb @ L @ Pb))
    return float(e)


def occ(f, n):
    w, v = np.linalg.eigh(f)
    return v[:, :n], w


def solve(kind, h0, h, chol, na, nb, C0, damp=0.0, iters=30):
    """Roothaan iteration (optionally damped); returns (orbitals, energy, residual, gap)."""
    if kind == "rhf":
        P = C0 @ C0.T
        hm = (h[0] + h[1]) / 2
        for _ in range(iters):
            C, w = occ(fock_r(hm, chol, P), na)
            Pn = C @ C.T
            P = damp * P + (1 - damp) * Pn
        C, w = occ(fock_r(hm, chol, P), na)
        res = np.linalg.norm(C @ C.T - P)
        gap = w[na] - w[na - 1] if na < len(w) else np.inf
        return C, energy_r(h0, hm, chol, C @ C.T), res, gap
    Pa, Pb = C0[0] @ C0[0].T, C0[1] @ C0[1].T
    for _ in range(iters):
        fa, fb = fock_u(h, chol, Pa, Pb)
        Ca, wa = occ(fa, na)
        Cb, wb = occ(fb, nb)
        Pa = damp * Pa + (1 - damp) * Ca @ Ca.T
        Pb = damp * Pb + (1 - damp) * Cb @ Cb.T
    fa, fb = fock_u(h, chol, Pa, Pb)
    Ca, wa = occ(fa, na)
    Cb, wb = occ(fb, nb)
    res = np.linalg.norm(Ca @ Ca.T - Pa) + np.linalg.norm(Cb @ Cb.T - Pb)
    n = len(wa)
    gap = min(wa[na] - wa[na - 1] if 0 < na < n else np.inf, wb[nb] - wb[nb - 1] if 0 < nb < n else np.inf)
    return [Ca, Cb], energy_u(h0, h, chol, Ca @ Ca.T, Cb @ Cb.T), res, gap


def lib_optimize(kind, norb, na, nb, h0, h, chol, C0, n_iter=30, extra_wave_data=None):
    import jax.numpy as jnp

    from ad_afqmc import wavefunctions

    hd = {"h0": jnp.array(h0), "h1": jnp.array(h), "chol": jnp.array(chol.reshape(len(chol), -1))}
    extra = dict(extra_wave_data or {})
    if kind == "rhf":
        t = wavefunctions.rhf(norb, (na, nb), n_opt_iter=n_iter)
        out = t.optimize(hd, dict(extra, mo_coeff=jnp.array(C0)))["mo_coeff"]
        return np.asarray(out)
    t = wavefunctions.uhf(norb, (na, nb), n_opt_iter=n_iter)
    out = t.optimize(hd, dict(extra, mo_coeff=[jnp.array(C0[0]), jnp.array(C0[1])]))["mo_coeff"]
    return [np.asarray(out[0]), np.asarray(out[1])]


def proj(kind, C):
    if kind == "rhf":
        return [C @ C.T]
    return [C[0] @ C[0].T, C[1] @ C[1].T]


def energy_of(kind, h0, h, chol, C):
    if kind == "rhf":
        return energy_r(h0, (h[0] + h[1]) / 2, chol, C @ C.T)
    return energy_u(h0, h, chol, C[0] @ C[0].T, C[1] @ C[1].T)


def rot(rng, C, angle, norb):
    a = rng.normal(size=(norb, norb))
    a = a - a.T
    from scipy.linalg import expm

    u = expm(angle * a / np.linalg.norm(a))
    return u @ C


def judge_problem(kind, norb, na, nb, h0, h, chol, rng, key, events, cnt):
    # converged reference by the independent (damped) solver from the core guess
    if kind == "rhf":
        C0 = occ((h[0] + h[1]) / 2, na)[0]
    else:
        C0 = [occ(h[0], na)[0], occ(h[1], nb)[0]]
    Cs, Es, res, gap = solve(kind, h0, h, chol, na, nb, C0, damp=0.5, iters=400)
    converged = res < 1e-11
    # --- orthonormality for every input, including random non-orthonormal starts
    starts = {"exact": Cs}
    if kind == "rhf":
        starts["mild"] = rot(rng, Cs, 0.05, norb)
        starts["strong"] = rot(rng, Cs, 1.0, norb)
        starts["random"] = rng.normal(size=(norb, na))
    else:
        starts["mild"] = [rot(rng, Cs[0], 0.05, norb), rot(rng, Cs[1], 0.05, norb)]
        starts["strong"] = [rot(rng, Cs[0], 1.0, norb), rot(rng, Cs[1], 1.0, norb)]
        starts["random"] = [rng.normal(size=(norb, na)), rng.normal(size=(norb, nb))]
    outs = {}
    for name, st in starts.items():
        out = lib_optimize(kind, norb, na, nb, h0, h, chol, st)
        cnt["optimize_calls"] += 1
        outs[name] = out
        mats = [out] if kind == "rhf" else out
        r = max(float(np.max(np.abs(m.T @ m - np.eye(m.shape[1])))) if m.shape[1] else 0.0 for m in mats)
        fin = all(np.all(np.isfinite(m)) for m in mats)
        events.append(judge("scf/orthonormal-output", r if fin else float("nan"), 1e-10, key + "/orthonormal/" + name))
    if not converged or gap < 0.3:
        events.append(ev("scf/skip-ill-conditioned", None, key=key + "/skip-ill-conditioned", gap=float(gap), res=float(res)))
        return False
    # --- fixed point: a converged solution is left unchanged (same occupied space)
    # conditioning rule: the independent undamped iteration started there stays there
    Cu, Eu, resu, _ = solve(kind, h0, h, chol, na, nb, Cs, damp=0.0, iters=30)
    stable = max(np.linalg.norm(a - b) for a, b in zip(proj(kind, Cu), proj(kind, Cs))) < 1e-9
    if stable:
        d = max(float(np.linalg.norm(a - b)) for a, b in zip(proj(kind, outs["exact"]), proj(kind, Cs)))
        events.append(judge("scf/fixed-point-unchanged", d, 1e-8, key + "/fixed-point", gap=float(gap)))
        cnt["fixed_point"] += 1
        # the orbitals define the trial: an auxiliary wave_data["rdm1"] (mean-field shift / fallback observable, may come from anywhere)
        # must not leak into the SCF, however few iterations are asked for
        import jax.numpy as jnp

        foreign = rng.normal(size=(2, norb, norb)) * 0.5
        foreign = (foreign + foreign.transpose(0, 2, 1)) / 2 + np.eye(norb) * 0.5
        for n_it in (1, 3, 30):
            out_f = lib_optimize(kind, norb, na, nb, h0, h, chol, Cs, n_iter=n_it, extra_wave_data={"rdm1": jnp.array(foreign)})
            cnt["optimize_calls"] += 1
            d_f = max(float(np.linalg.norm(a - b)) for a, b in zip(proj(kind, out_f), proj(kind, Cs)))
            events.append(judge("scf/fixed-point-unchanged-with-foreign-rdm1", d_f, 1e-8, key + "/fixed-point-foreign-rdm1", n_opt_iter=n_it))
        # --- mildly perturbed start: same energy as the independent solver, if the independent undamped iteration gets there
        Cm, Em, resm, _ = solve(kind, h0, h, chol, na, nb, starts["mild"], damp=0.0, iters=30)
        if resm < 1e-10 and abs(Em - Es) < 1e-10:
            El = energy_of(kind, h0, h, chol, outs["mild"])
            events.append(judge("scf/energy-from-perturbed-start", abs(El - Es), 1e-8 * max(1.0, abs(Es)), key + "/energy-mild",
                                lib=El, ref=Es, gap=float(gap)))
            cnt["energy_match"] += 1
    return True


def run_scf(case):
    rng = np.random.default_rng(case["s"])
    kind, norb = case["kind"], case["norb"]
    na, nb = case["nelec"]
    # gapped one-body part: spectrum with a gap >= 1 at the Fermi level(s), random eigenvectors
    def gapped(nocc):
        q, _ = np.linalg.qr(rng.normal(size=(norb, norb)))
        lev = np.sort(rng.uniform(-2, 0, size=norb))
        lev[nocc:] += 1.5
        return (q * lev) @ q.T

    h = np.array([gapped(na), gapped(nb if kind == "uhf" and nb > 0 else na)])
    if kind == "rhf" or rng.random() < 0.5:
        h[1] = h[0]
    chol = rng.normal(size=(case["nchol"], norb, norb)) * rng.choice([0.1, 0.25, 0.4])
    chol = (chol + chol.transpose(0, 2, 1)) / 2
    h0 = float(rng.normal())
    events = []
    cnt = {"optimize_calls": 0, "fixed_point": 0, "energy_match": 0}
    key = "C18/%s" % kind
    judge_problem(kind, norb, na, nb, h0, h, chol, rng, key, events, cnt)
    return {"events": events, "nontrivial": True, "sample": {"kind": kind, "norb": norb, "nelec": [na, nb], "fixed_point_judged": cnt["fixed_point"],
                                                            "energy_judged": cnt["energy_match"]}, "counters": cnt}


def run_mol(case):
    from pyscf import ao2mo, scf

    from ad_afqmc import pyscf_interface
    from checks.c17 import _mol

    rng = np.random.default_rng(case["s"])
    mol = _mol(case["mol"], rng)
    mf = scf.RHF(mol)
    mf.conv_tol = 1e-12
    mf.kernel()
    C = mf.mo_coeff
    norb = C.shape[1]
    h1 = C.T @ mf.get_hcore() @ C
    eri = ao2mo.restore(4, ao2mo.kernel(mol, C), norb)
    L0 = pyscf_interface.modified_cholesky(eri, 1e-10)
    chol = np.zeros((L0.shape[0], norb, norb))
    tri = np.tril_indices(norb)
    for g in range(L0.shape[0]):
        chol[g][tri] = L0[g]
        chol[g] = chol[g] + chol[g].T - np.diag(np.diag(chol[g]))
    na, nb = mol.nelec
    kind = case["kind"]
    h = np.array([h1, h1])
    h0 = float(mol.energy_nuc())
    events = []
    cnt = {"optimize_calls": 0, "fixed_point": 0, "energy_match": 0}
    key = "C18/mol/%s" % kind
    judge_problem(kind, norb, na, nb, h0, h, chol, rng, key, events, cnt)
    # the exact pyscf solution expressed in its own MO basis is the identity block
    if kind == "rhf":
        start = np.eye(norb)[:, :na]
    else:
        start = [np.eye(norb)[:, :na], np.eye(norb)[:, :nb]]
    # conditioning rule (as for the random problems): the independent undamped Roothaan iteration started at pyscf's solution must stay
    # there - an RHF solution that is a saddle point in the UHF space (ring / stretched H4) is left by round-off alone, legitimately
    Cu_, Eu_, _r, _g = solve(kind, h0, h, chol, na, nb, start, damp=0.0, iters=30)
    if abs(Eu_ - float(mf.e_tot)) > 1e-8:
        events.append(ev("scf/pyscf-solution-unstable-skip", None, key=key + "/skip-unstable-reference", drift=float(Eu_ - mf.e_tot)))
        return {"events": events, "nontrivial": True, "sample": {"mol": case["mol"], "kind": kind, "unstable_reference": True}, "counters": cnt}
    out = lib_optimize(kind, norb, na, nb, h0, h, chol, start)
    cnt["optimize_calls"] += 1
    E = energy_of(kind, h0, h, chol, out)
    events.append(judge("scf/pyscf-solution-is-fixed-point-energy", abs(E - mf.e_tot), 1e-7, key + "/pyscf-energy", lib=E, pyscf=float(mf.e_tot)))
    return {"events": events, "nontrivial": True, "sample": {"mol": case["mol"], "kind": kind, "e_lib": E, "e_pyscf": float(mf.e_tot)}, "counters": cnt}


def run_eigh(case):
    import jax
    import jax.numpy as jnp

    from ad_afqmc import linalg_utils

    rng = np.random.default_rng(case["s"])
    n = case["n"]
    q, _ = np.linalg.qr(rng.normal(size=(n, n)))
    spec = case["spec"]
    if spec in ("generic", "shifted"):
        w = np.sort(rng.normal(size=n) * 2)
        if spec == "shifted":
            # close but clearly distinct levels at large absolute energy (core-like levels, constant shifts)
            w = np.sort(np.concatenate([w[: n // 2], w[: n - n // 2] * 1e-3])) + float(rng.choice([-1.0, 1.0])) * float(rng.choice([50.0, 500.0, 3000.0]))
        for i in range(1, n):
            if w[i] - w[i - 1] < 1e-3:
                w[i:] += 2e-3
    elif spec == "degenerate":
        w = np.sort(rng.normal(size=n))
        k = int(rng.integers(0, n - 1))
        w[k + 1] = w[k]
        if n > 2 and rng.random() < 0.5:
            w[(k + 2) % n] = w[k]
        w = np.sort(w)
    elif spec == "near":
        w = np.sort(rng.normal(size=n))
        k = int(rng.integers(0, n - 1))
        w[k + 1] = w[k] + 10.0 ** rng.uniform(-12, -4)
        w = np.sort(w)
    elif spec == "identity":
        w = np.ones(n) * float(rng.normal())
    else:
        w = np.zeros(n)
    A = (q * w) @ q.T
    A = (A + A.T) / 2
    if spec in ("degenerate", "identity", "zero") and rng.random() < 0.5:
        A = np.diag(w)  # bit-identical eigenvalues
    dA = rng.normal(size=(n, n))
    dA = (dA + dA.T) / 2
    (wl, vl), (dw, dv) = jax.jvp(linalg_utils._eigh, (jnp.array(A),), (jnp.array(dA),))
    wl, vl, dw, dv = map(np.asarray, (wl, vl, dw, dv))
    events = []
    cnt = {"eigh_jvp": 0, "eigh_degenerate": 0}
    fin = bool(np.all(np.isfinite(dw)) and np.all(np.isfinite(dv)) and np.all(np.isfinite(vl)))
    events.append(ev("eigh/derivative-finite", fin, key="C18/eigh/finite/%s" % spec, spec=spec, n=n))
    if spec not in ("generic", "shifted"):
        cnt["eigh_degenerate"] = 1
    gaps = np.diff(wl)
    if spec in ("generic", "shifted") and fin and gaps.min() >= 1e-3:
        M = vl.T @ dA @ vl
        dw_ref = np.diag(M)
        dv_ref = np.zeros((n, n))
        for i in range(n):
            for j in range(n):
                if i != j:
                    dv_ref[:, i] += vl[:, j] * M[j, i] / (wl[i] - wl[j])
        wscale = max(1.0, float(np.max(np.abs(wl))))   # round-off of the eigenvalue differences scales with |w|
        events.append(judge("eigh/eigenvalue-derivative", float(np.max(np.abs(dw - dw_ref))), 1e-10 * max(1.0, np.abs(dA).max()), "C18/eigh/dw/" + spec))
        events.append(judge("eigh/eigenvector-derivative", float(np.max(np.abs(dv - dv_ref))), 1e-9 * wscale / gaps.min() ** 2 * max(1.0, np.abs(dA).max()) * 1e-3 + 1e-9 / gaps.min(),
                            "C18/eigh/dv/" + spec, mingap=float(gaps.min()), wmax=wscale))
        cnt["eigh_jvp"] = 1
    return {"events": events, "nontrivial": spec in ("generic", "shifted") or n >= 2, "sample": {"n": n, "spec": spec, "min_gap": float(gaps.min()) if n > 1 else None,
                                                                                   "dv_max": float(np.max(np.abs(dv))) if fin else None}, "counters": cnt}


def run_scfjvp(case):
    """jvp / grad through trial.optimize for Hamiltonians whose Fock matrix has coinciding eigenvalues: every derivative stays finite
    (and the primal is untouched by taking it)"""
    import jax
    import jax.numpy as jnp

    from ad_afqmc import wavefunctions

    rng = np.random.default_rng(case["s"])
    model = case["model"]
    if model.startswith("ring"):
        n = int(model[4:])
        h = np.zeros((n, n))
        for i in range(n):
            h[i, (i + 1) % n] = h[(i + 1) % n, i] = -1.0
        u = float(rng.choice([1.0, 2.0, 4.0]))
        chol = np.zeros((n, n, n))
        for g in range(n):
            chol[g, g, g] = np.sqrt(u)
        ne = {4: [(1, 1), (3, 3), (2, 2)], 6: [(3, 3), (1, 1), (2, 2)]}[n][int(rng.integers(3))]
    else:
        n = 5
        lev = np.array([-1.0, -0.4, -0.4, 0.7, 0.7])   # bit-exact ties inside the spectrum
        h = np.diag(lev)
        chol = rng.normal(size=(2, n, n)) * 0.0
        chol[0] = np.eye(n) * 0.3
        ne = [(2, 2), (1, 1), (3, 3)][int(rng.integers(3))]
    kind = case["kind"]
    if kind == "uhf" and rng.random() < 0.5:
        ne = (ne[0], max(ne[1] - 1, 0)) if ne[0] > 1 else ne
    hd = {"h0": jnp.array(0.0), "h1": jnp.array(np.array([h, h])), "chol": jnp.array(chol.reshape(len(chol), -1))}
    w_, v_ = np.linalg.eigh(h)
    if kind == "rhf":
        trial = wavefunctions.rhf(n, (ne[0], ne[0]), n_opt_iter=int(rng.choice([3, 10, 30])))
        wd0 = {"mo_coeff": jnp.array(v_[:, : ne[0]])}
    else:
        trial = wavefunctions.uhf(n, tuple(ne), n_opt_iter=int(rng.choice([3, 10, 30])))
        wd0 = {"mo_coeff": [jnp.array(v_[:, : ne[0]]), jnp.array(v_[:, : ne[1]])]}
    O = rng.normal(size=(2, n, n))
    O = (O + O.transpose(0, 2, 1)) / 2
    R = rng.normal(size=(n, n))

    def proj_of(c):
        hd_c = dict(hd)
        hd_c["h1"] = hd["h1"] + c * jnp.array(O)
        out = trial.optimize(hd_c, dict(wd0))["mo_coeff"]
        mats = [out] if kind == "rhf" else [out[0], out[1]]
        return sum(jnp.sum((m @ m.T) * jnp.array(R)) for m in mats)

    events = []
    key = "C18/scf-derivative/%s/%s" % (kind, "ring" if model.startswith("ring") else "ties")
    p0, t0 = jax.jvp(proj_of, (0.0,), (1.0,))
    g0 = jax.grad(proj_of)(0.0)
    events.append(ev("scf/forward-derivative-finite-at-coinciding-eigenvalues", bool(np.isfinite(float(t0))), key=key + "/jvp-finite", value=str(float(t0)), nelec=list(ne)))
    events.append(ev("scf/reverse-derivative-finite-at-coinciding-eigenvalues", bool(np.isfinite(float(g0))), key=key + "/grad-finite", value=str(float(g0)), nelec=list(ne)))
    events.append(ev("scf/primal-finite", bool(np.isfinite(float(p0))), key=key + "/primal-finite"))
    return {"events": events, "nontrivial": True, "sample": {"kind": kind, "model": model, "nelec": list(ne), "jvp": float(t0), "grad": float(g0)},
            "counters": {"scf_derivative_cases": 1, "optimize_calls": 2}}


def run_case(case):
    return {"scf": run_scf, "mol": run_mol, "eigh": run_eigh, "scfjvp": run_scfjvp}[case["type"]](case)
