"""C15 - observables are covariant under orthogonal orbital rotations; rotate_orbs is the congruence C^T X C."""
import numpy as np

from vlib import measure, trials
from vlib.monitor import ev, judge

ID = "C15"
LEVEL_TEXT = ("The real rotation routine is compared with the NumPy congruence for random invertible (non-symmetric) matrices and spin-"
              "dependent one-body terms; for random orthogonal matrices the real trial measurements are evaluated before and after "
              "rotating integrals, trial orbitals and walkers. Held = on all generated cases.")
LEVEL_NOTE = "trusted: NumPy; orbital-based trials only (rhf, uhf, ghf, noci) - occupation-number trials are tied to their basis by construction"
TECHNIQUE = "runtime monitoring: metamorphic (covariance) oracle + direct congruence reference on call/return values"
RULE = ("cases = norb 2..6 x 1-4 Cholesky matrices x spin-dependent h1 x (invertible C for the congruence | orthogonal C for covariance) x "
        "trial kind (rhf, uhf, ghf, noci) x sector x complex walkers; non-trivial = C not a permutation/identity and |overlap| >= 0.05 for "
        "the measurement clauses")
MIN_NONTRIVIAL = {"quick": 50, "thorough": 400}
TIMEOUT = {"quick": 900, "thorough": 3600}
ASSUMPTIONS = ["real rotation matrices", "symmetric Cholesky matrices are NOT assumed for the congruence clause (a transposed index must show)"]
REQUIRED_COUNTERS = {"congruence": 30, "covariance": 30}


def gen_cases(tier, seed):
    rng = np.random.default_rng([seed, 15])
    q = tier == "quick"
    cases = []
    for norb in ([2, 3, 4, 5] if q else [2, 3, 4, 5, 6]):
        for rep in range(10 if q else 400):
            cases.append({"type": "congruence", "norb": norb, "nchol": int(rng.integers(1, 5)), "s": int(rng.integers(1 << 30)), "group": "cong-%d" % norb})
    for nchol in ([33, 64, 70, 130] if q else [17, 32, 33, 63, 64, 65, 70, 100, 128, 129, 150, 200, 257]):
        cases.append({"type": "congruence", "norb": int(rng.choice([3, 5])), "nchol": nchol, "s": int(rng.integers(1 << 30)), "group": "congL-%d" % nchol})
    for nchol in ([70] if q else [65, 70, 130, 150]):
        cases.append({"type": "covariance", "kind": "uhf", "norb": 4, "nelec": [2, 1], "nchol": nchol, "s": int(rng.integers(1 << 30)),
                      "group": "covL-%d" % nchol, "cost": 3})
    for kind in ("rhf", "uhf", "ghf", "noci"):
        for norb in ([3, 4] if q else [3, 4, 5]):
            secs = measure.sectors(norb, kind)
            lim = 3 if q else 6
            if len(secs) > lim:
                secs = [secs[i] for i in sorted(rng.choice(len(secs), lim, replace=False))]
            for (na, nb) in secs:
                for rep in range(2 if q else 20):
                    cases.append({"type": "covariance", "kind": kind, "norb": norb, "nelec": [na, nb], "nchol": int(rng.integers(1, 4)),
                                  "s": int(rng.integers(1 << 30)), "group": "cov-%s-%d-%d-%d" % (kind, norb, na, nb)})
    return cases


def run_congruence(case):
    import jax.numpy as jnp

    from ad_afqmc import hamiltonian

    rng = np.random.default_rng(case["s"])
    n = case["norb"]
    ham = hamiltonian.hamiltonian(n)
    h1 = rng.normal(size=(2, n, n))          # generic: non-symmetric, spin dependent
    chol = rng.normal(size=(case["nchol"], n, n))
    C = rng.normal(size=(n, n)) + 2 * np.eye(n)
    hd = {"h0": jnp.array(0.3), "h1": jnp.array(h1), "chol": jnp.array(chol.reshape(-1, n * n)), "ene0": 0.0}
    out = ham.rotate_orbs(hd, jnp.array(C))
    h1r = np.asarray(out["h1"])
    cr = np.asarray(out["chol"]).reshape(-1, n, n)
    events = []
    sc = max(1.0, np.abs(C).max() ** 2 * np.abs(h1).max() * n * n)
    r1 = max(float(np.max(np.abs(h1r[s] - C.T @ h1[s] @ C))) for s in range(2))
    events.append(judge("rotate/h1-congruence", r1 / sc, 1e-12, "C15/rotate/h1", spin_resid=[float(np.max(np.abs(h1r[s] - C.T @ h1[s] @ C))) for s in range(2)]))
    per = np.array([float(np.max(np.abs(cr[g] - C.T @ chol[g] @ C))) for g in range(chol.shape[0])])
    r2 = float(per.max())
    events.append(judge("rotate/chol-congruence", r2 / sc, 1e-12, "C15/rotate/chol", nchol=int(chol.shape[0]), worst_vector=int(per.argmax())))
    # the same with the Cholesky vectors stored in another dtype (single precision files, integer lattice-model vectors such as
    # sqrt(U) e_g e_g^T with U = 4): the rotated vectors are C^T L C of the values that were stored, not a truncation of it
    for nm_, st_ in (("float32", np.float32), ("integer", np.int64)):
        ch_s = (np.round(chol * 3.0) if nm_ == "integer" else chol).astype(st_)
        hd_s = {"h0": jnp.array(0.3), "h1": jnp.array(h1), "chol": jnp.array(ch_s.reshape(-1, n * n)), "ene0": 0.0}
        cr_s = np.asarray(ham.rotate_orbs(hd_s, jnp.array(C))["chol"], dtype=float).reshape(-1, n, n)
        ref_s = np.array([C.T @ ch_s[g].astype(float) @ C for g in range(ch_s.shape[0])])
        events.append(judge("rotate/chol-congruence-other-storage-dtype", float(np.max(np.abs(cr_s - ref_s))) / (sc * (3.0 if nm_ == "integer" else 1.0)), 1e-12,
                            "C15/rotate/chol-" + nm_, stored_as=nm_))
    events.append(ev("rotate/shapes", bool(np.asarray(out["chol"]).shape == (case["nchol"], n * n) and h1r.shape == (2, n, n)), key="C15/rotate/shapes"))
    events.append(ev("rotate/h0-untouched", bool(float(out["h0"]) == 0.3), key="C15/rotate/h0"))
    return {"events": events, "nontrivial": True, "sample": {"norb": n, "nchol": case["nchol"], "h1_resid": r1, "chol_resid": r2},
            "counters": {"congruence": 1}}


def run_covariance(case):
    import jax.numpy as jnp

    from ad_afqmc import hamiltonian
    from vlib import fockref

    rng = np.random.default_rng(case["s"])
    kind, norb = case["kind"], case["norb"]
    na, nb = case["nelec"]
    t = trials.make(kind, norb, (na, nb), rng)
    trial = t["trial"]
    Q = trials.rand_orth(rng, norb)
    spin_dep = kind != "rhf"
    h0, h1, chol = trials.rand_ham(rng, norb, case["nchol"], spin_dep=spin_dep, chol_scale=0.5 / max(1.0, case["nchol"] / 3.0) ** 0.5)
    nonsym = bool(case["s"] % 3 == 0)
    if nonsym:
        # a one-body matrix with an antisymmetric part (h1 + coupling * observable for a non-symmetric observable): whatever a trial makes
        # of it (its symmetric part, or the matrix as given) must still not depend on the orbital basis
        anti = rng.normal(size=(norb, norb)) * 0.3
        h1 = np.array([h1[0] + (anti - anti.T), h1[1] + (anti - anti.T) * (0.5 if spin_dep else 1.0)])
    ham = hamiltonian.hamiltonian(norb)
    hd = trials.ham_data_of(h0, h1, chol)
    hd_rot = ham.rotate_orbs(dict(hd), jnp.array(Q))
    # rotate the trial orbitals with the same matrix
    wd0 = t["wave_data"]
    if kind == "rhf":
        wd1 = {"mo_coeff": jnp.array(Q.T @ np.asarray(wd0["mo_coeff"]))}
    elif kind == "uhf":
        wd1 = {"mo_coeff": [jnp.array(Q.T @ np.asarray(wd0["mo_coeff"][0])), jnp.array(Q.T @ np.asarray(wd0["mo_coeff"][1]))]}
    elif kind == "ghf":
        m = np.asarray(wd0["mo_coeff"])
        wd1 = {"mo_coeff": jnp.array(np.vstack([Q.T @ m[:norb], Q.T @ m[norb:]]))}
    else:
        ci, (da, db) = wd0["ci_coeffs_dets"]
        wd1 = {"ci_coeffs_dets": [ci, [jnp.array(np.einsum("qp,dqk->dpk", Q, np.asarray(da))), jnp.array(np.einsum("qp,dqk->dpk", Q, np.asarray(db)))]]}
    hd0 = ham.build_measurement_intermediates(dict(hd), trial, wd0)
    hd1 = ham.build_measurement_intermediates(dict(hd_rot), trial, wd1)
    F = fockref.get(norb)
    events = []
    cnt = {"covariance": 0, "skipped": 0}
    nw = 4
    S = measure.ham_scale(h0, h1, chol)
    ratios = []
    for k in range(nw):
        for _ in range(20):
            wu, wd = trials.rand_walker(rng, norb, na, nb)
            phi = F.det(wu, wd)
            rel = abs(np.vdot(t["psi"], phi)) / (np.linalg.norm(t["psi"]) * np.linalg.norm(phi))
            if rel >= 0.05:
                break
        else:
            cnt["skipped"] += 1
            continue
        wu1, wd1_ = Q.T @ wu, Q.T @ wd
        o0 = complex(trial._calc_overlap(jnp.array(wu), jnp.array(wd), wd0))
        o1 = complex(trial._calc_overlap(jnp.array(wu1), jnp.array(wd1_), wd1))
        ratios.append(o1 / o0)
        e0 = complex(trial._calc_energy(jnp.array(wu), jnp.array(wd), hd0, wd0))
        e1 = complex(trial._calc_energy(jnp.array(wu1), jnp.array(wd1_), hd1, wd1))
        f0 = np.asarray(trial._calc_force_bias(jnp.array(wu), jnp.array(wd), hd0, wd0))
        f1 = np.asarray(trial._calc_force_bias(jnp.array(wu1), jnp.array(wd1_), hd1, wd1))
        key = "C15/covariance/%s" % kind
        events.append(judge("covariance/overlap-factor-one", abs(o1 / o0 - 1.0), 1e-9 / rel, key + "/overlap"))
        events.append(judge("covariance/energy-unchanged", abs(e1 - e0), 1e-9 * S / rel, key + "/energy" + ("/non-symmetric-h1" if nonsym else ""), e0=e0, e1=e1, spin_dep_h1=spin_dep))
        events.append(judge("covariance/force-bias-unchanged", float(np.max(np.abs(f1 - f0))), 1e-9 * max(1.0, S) / rel, key + "/force-bias"))
        cnt["covariance"] += 1
    if len(ratios) >= 2:
        events.append(judge("covariance/overlap-factor-walker-independent", float(np.max(np.abs(np.array(ratios) - ratios[0]))), 1e-8, "C15/covariance/%s/overlap-factor" % kind))
    return {"events": events, "nontrivial": cnt["covariance"] > 0, "sample": {"kind": kind, "nelec": [na, nb], "overlap_ratios": ratios[:2]}, "counters": cnt}


def run_case(case):
    return run_congruence(case) if case["type"] == "congruence" else run_covariance(case)
