"""C08 - cached overlaps are coherent with the walkers whenever a step reads them.

(a) hook H2: every propagate() entry recomputes the overlaps and folds the worst relative
    difference into a pre-seeded prop_data accumulator (and counts the evaluations);
(b) replay: the sampler's random stream is reproduced and the same history is driven through
    single public propagate / orthonormalize / reconfigure calls with an explicit refresh after
    every walker modification - weights, walkers and block energies must match the sampler's."""
import contextlib
import io

import numpy as np

from vlib import afqmc, hooks, hubbard, trials
from vlib.monitor import ev, judge

ID = "C08"
LEVEL_TEXT = ("The overlap-coherence hook travels inside prop_data through every scan / checkpoint / jvp / vjp of the real sampler and driver and "
              "reports the worst |cached - recomputed|/|cached| seen at any propagate() entry together with the number of entries checked; a "
              "step-by-step replay with explicit refreshes provides an independent oracle for the composed history. Held = on every history "
              "produced (sampler blocks, driver-style sequences with QR + global reconfiguration, real driver runs over the option matrix).")
LEVEL_NOTE = "trusted: NumPy, jax.random stream semantics (split/normal/uniform), the hook commit; counts of hook evaluations must equal the number of propagate calls of the history"
TECHNIQUE = "runtime monitoring: in-carry invariant hook (assertion on hooked state) + step-by-step replay oracle over recorded random streams"
RULE = ("histories = (propagator x trial) x sampler shape (steps, energy blocks, reconfiguration blocks) x entry point (plain, AD with/without "
        "reconfiguration, with/without orbital relaxation) x driver-style outer loop (sampler call, QR, global reconfiguration, estimate update) x "
        "seed; real driver runs over ad_mode x do_sr x orbital_rotation x walker_type; non-trivial = history with at least two sampler calls and "
        "a reconfiguration that changed the walker order (non-uniform weights)")
MIN_NONTRIVIAL = {"quick": 8, "thorough": 30}
TIMEOUT = {"quick": 3000, "thorough": 12000}
ASSUMPTIONS = ["walkers with weight 0 are excluded from the coherence maximum (a killed walker has no meaningful cached overlap)",
               "AD entry points are driven at a converged trial so that trial.optimize leaves the orbitals unchanged"]
REQUIRED_COUNTERS = {"hook_evaluations": 200, "replays": 4, "driver_runs": 2}
ENTRY = ("plain", "ad", "ad_nosr", "ad_norot", "ad_nosr_norot")


def gen_cases(tier, seed):
    rng = np.random.default_rng([seed, 8])
    q = tier == "quick"
    cases = []
    # ("uhf", "restricted-open"): restricted walkers (norb x n_up) with an open-shell trial, the beta block is their first n_dn columns
    combos = [("rhf", "restricted"), ("uhf", "unrestricted"), ("noci", "unrestricted"), ("ucisd", "unrestricted"), ("uhf", "cpmc"), ("ghf", "cpmc_slow"),
              ("uhf", "restricted-open"), ("uhf", "cpmc-tiny"), ("ghf", "cpmc")]
    if not q:
        combos += [("uhf", "restricted"), ("cisd", "restricted"), ("uhf", "cpmc_slow"), ("multislater", "unrestricted"), ("noci", "restricted-open"),
                   ("ghf", "restricted-open"), ("ghf", "cpmc-tiny")]
    for (kind, p) in combos:
        for rep in range(1 if q else 4):
            cases.append({"type": "replay", "kind": kind, "prop": p, "shape": [int(rng.integers(2, 5)), int(rng.integers(1, 3)) if rep else 2, int(rng.integers(1, 3))],
                          "calls": 3, "dt": float(rng.choice([0.01, 0.05])), "s": int(rng.integers(1 << 30)), "group": "rp-%s-%s-%d" % (kind, p, rep), "cost": 20})
    for entry in ENTRY:
        for wt in ("rhf", "uhf"):
            for rep in range(1 if q else 3):
                cases.append({"type": "entry", "entry": entry, "wt": wt, "shape": [int(rng.integers(3, 6)), int(rng.integers(1, 3)), int(rng.integers(1, 3))],
                              "calls": 4, "dt": 0.05, "s": int(rng.integers(1 << 30)), "group": "en-%s-%s-%d" % (entry, wt, rep), "cost": 30})
    # one long block (the sampler default is 50 steps per block; nothing above 5 is used elsewhere in this check)
    for wt in (("rhf",) if q else ("rhf", "uhf")):
        cases.append({"type": "entry", "entry": "plain", "wt": wt, "shape": [120, 1, 1], "calls": 2, "dt": 0.01, "s": int(rng.integers(1 << 30)),
                      "group": "en-long-%s" % wt, "cost": 30})
    drv = [(None, True, True), ("forward", True, True), ("forward", False, True), ("forward", True, False), ("forward", False, False),
           ("reverse", True, True), ("reverse", False, True), ("reverse", False, False), ("reverse", True, False)]
    drv += [("2rdm", True, True)]
    for i, (ad, do_sr, rot) in enumerate(drv):
        for wt in (("uhf",) if q and i % 2 else ("rhf", "uhf") if not q else ("rhf",)):
            cases.append({"type": "driver", "ad_mode": ad, "do_sr": do_sr, "rot": rot, "wt": wt, "s": int(rng.integers(1 << 30)),
                          "group": "dr-%s-%s-%s-%s" % (ad, do_sr, rot, wt), "cost": 45})
    return cases


def _system(case, rng, nw):
    import jax.numpy as jnp

    from ad_afqmc import hamiltonian, propagation, wavefunctions

    p = case["prop"]
    if p in ("restricted", "unrestricted", "restricted-open"):
        wt = "uhf" if p == "unrestricted" else "rhf"
        ne = (2, 1) if (p in ("unrestricted", "restricted-open") and case["kind"] not in ("rhf", "cisd")) else (2, 2)
        S = afqmc.make_system(case["kind"], 4, ne, rng, walker_type=wt, dt=case["dt"], n_walkers=nw, nchol=3, chol_scale=0.5, orthonormal=True,
                              trial_opts={"ms_ndets": 6} if case["kind"] == "multislater" else None)
        w0 = afqmc.noisy_walkers(rng, S, nw, noise=0.1, walker_type=wt)
        pd = S["prop"].init_prop_data(S["trial"], S["wave_data"], S["ham_data"], w0)
        return S["ham"], S["ham_data"], S["prop"], S["trial"], S["wave_data"], pd
    k = hubbard.lattice_h1("chain4")
    n, na, nb, u = 4, 2, 2, 4.0
    a, b = hubbard.trial_orbitals(rng, k, na, nb, "afm")
    # "cpmc-tiny": un-normalised trial orbitals - the absolute scale of the overlap is unphysical (here ~1e-9), ratios are what matter
    sc = (0.0074 if case["s"] % 2 else 2.0e-4) if p == "cpmc-tiny" else 1.0   # overlaps ~1e-9 or ~1e-15
    if case["kind"] == "ghf":
        trial = wavefunctions.ghf_cpmc(n, (na, nb))
        wd = {"mo_coeff": jnp.array(sc * hubbard.ghf_from_uhf(a, b, 0.6))}
    else:
        trial = wavefunctions.uhf_cpmc(n, (na, nb))
        wd = {"mo_coeff": [jnp.array(sc * a), jnp.array(sc * b)]}
    wd["rdm1"] = jnp.array([a @ a.T, b @ b.T])
    hd = {"h0": jnp.array(0.0), "h1": jnp.array([k, k]), "chol": jnp.array(hubbard.onsite_chol(n, u)), "ene0": 0.0, "u": u}
    prop = (propagation.propagator_cpmc_slow if p == "cpmc_slow" else propagation.propagator_cpmc)(dt=case["dt"], n_walkers=nw)
    ham = hamiltonian.hamiltonian(n)
    hd = ham.build_measurement_intermediates(hd, trial, wd)
    hd = ham.build_propagation_intermediates(hd, prop, trial, wd)
    wu = a[None] + 0.1 * rng.normal(size=(nw, n, na))
    wdn = b[None] + 0.1 * rng.normal(size=(nw, n, nb))
    pd = prop.init_prop_data(trial, wd, hd, [jnp.array(wu + 0j), jnp.array(wdn + 0j)])
    return ham, hd, prop, trial, wd, pd


def _outer(prop, pd, block_energy):
    """what driver.afqmc does between sampler calls"""
    from ad_afqmc import config

    pd = prop.orthonormalize_walkers(pd)
    pd = prop.stochastic_reconfiguration_global(pd, config.not_a_comm())
    pd["e_estimate"] = 0.9 * pd["e_estimate"] + 0.1 * block_energy
    return pd


def replay_call(smp, ham_data, prop, pd, trial, wd):
    """independent re-execution of one sampler.propagate_phaseless call through public steps"""
    import jax.numpy as jnp
    from jax import random

    refresh = lambda d: trial.calc_overlap(d["walkers"], wd)
    pd["overlaps"] = refresh(pd)
    pd["pop_control_ene_shift"] = pd["e_estimate"]
    be, bw = [], []
    for _ in range(smp.n_sr_blocks):
        for _ in range(smp.n_ene_blocks):
            pd["key"], sub = random.split(pd["key"])
            fields = random.normal(sub, shape=(smp.n_prop_steps, prop.n_walkers, ham_data["chol"].shape[0]))
            for st in range(smp.n_prop_steps):
                pd = prop.propagate(trial, ham_data, pd, fields[st], wd)
            pd = prop.orthonormalize_walkers(pd)
            pd["overlaps"] = refresh(pd)
            e = jnp.real(trial.calc_energy(pd["walkers"], ham_data, wd))
            e = jnp.where(jnp.abs(e - pd["e_estimate"]) > jnp.sqrt(2.0 / prop.dt), pd["e_estimate"], e)
            w = jnp.sum(pd["weights"])
            b = jnp.sum(e * pd["weights"]) / w
            pd["pop_control_ene_shift"] = 0.9 * pd["pop_control_ene_shift"] + 0.1 * b
            be.append(float(b))
            bw.append(float(w))
        pd = prop.stochastic_reconfiguration_local(pd)
        pd["overlaps"] = refresh(pd)
    be, bw = np.array(be), np.array(bw)
    return float(np.sum(be * bw) / np.sum(bw)), pd


def _wmax(a, b):
    a, b = afqmc.np_walkers(a), afqmc.np_walkers(b)
    if isinstance(a, list):
        return max(float(np.max(np.abs(a[k] - b[k]))) for k in range(2) if a[k].size)
    return float(np.max(np.abs(a - b)))


def run_replay(case):
    from jax import random

    from ad_afqmc import sampling

    rng = np.random.default_rng(case["s"])
    nw = 8
    ham, hd, prop, trial, wd, pd = _system(case, rng, nw)
    smp = sampling.sampler(n_prop_steps=case["shape"][0], n_ene_blocks=case["shape"][1], n_sr_blocks=case["shape"][2], n_blocks=1)
    key0 = random.PRNGKey(case["s"] % 65521)
    pd["key"] = key0
    pd_r = afqmc.copy_pd(pd)
    pd = hooks.seed_overlap(pd)
    events = []
    key = "C08/%s/%s" % (case["prop"], case["kind"])
    expected = 0
    reordered = False
    worst = {"energy": 0.0, "weights": 0.0, "walkers": 0.0}
    for call in range(case["calls"]):
        w_before = np.asarray(pd["weights"]).copy()
        e, pd = smp.propagate_phaseless(ham, hd, prop, pd, trial, wd)
        er, pd_r = replay_call(smp, hd, prop, pd_r, trial, wd)
        expected += smp.n_sr_blocks * smp.n_ene_blocks * smp.n_prop_steps * (2 if case["prop"] in ("cpmc", "cpmc-tiny") else 1)
        worst["energy"] = max(worst["energy"], abs(float(e) - er) / max(1.0, abs(er)))
        worst["weights"] = max(worst["weights"], float(np.max(np.abs(np.asarray(pd["weights"]) - np.asarray(pd_r["weights"])))))
        worst["walkers"] = max(worst["walkers"], _wmax(pd["walkers"], pd_r["walkers"]))
        if len(set(np.round(np.asarray(pd["weights"]), 12))) > 1:
            reordered = True
        pd = _outer(prop, pd, float(e))
        pd_r = _outer(prop, pd_r, er)
    incoh, checks = hooks.read_overlap(pd)
    events.append(judge("hook/overlap-incoherence", incoh, 1e-10, key + "/hook-incoherence", checks=checks))
    events.append(ev("hook/evaluations-match-history", bool(checks == expected), key=key + "/hook-count", got=checks, expected=expected,
                     hard=(checks == 0)) if checks != 0 else ev("hook/not-reached", None, key="C08/hook-not-reached", hard=True))
    # finite-difference (AD) trial kinds amplify round-off by 1/eps^2 = 1e8: differently fused but identical arithmetic differs at 1e-9
    etol = 1e-6 if case["kind"] in ("multislater",) + trials.AD_CI else 1e-9
    events.append(judge("replay/block-energies", worst["energy"], etol, key + "/replay-energy"))
    events.append(judge("replay/weights", worst["weights"], 1e-9, key + "/replay-weights"))
    events.append(judge("replay/walkers", worst["walkers"], 1e-9, key + "/replay-walkers"))
    return {"events": events, "nontrivial": reordered and case["calls"] >= 2,
            "sample": {"prop": case["prop"], "kind": case["kind"], "shape": case["shape"], "hook_max_incoherence": incoh, "hook_evaluations": checks,
                       "replay_worst": worst}, "counters": {"hook_evaluations": checks, "replays": 1}}


def _converged_system(wt, rng, nw, dt, shape):
    """closed/open-shell problem whose trial is a converged, *stable* SCF solution: the library's undamped Roothaan iteration
    (trial.optimize) started there must stay there, which is checked with the independent NumPy iteration of checks.c18"""
    from checks import c18

    norb = 4
    ne = (2, 2) if wt == "rhf" else (2, 1)
    kind = "rhf" if wt == "rhf" else "uhf"
    for attempt in range(50):
        q, _ = np.linalg.qr(rng.normal(size=(norb, norb)))
        lev = np.sort(rng.uniform(-2, 0, size=norb))
        lev[2:] += 1.5
        hm = (q * lev) @ q.T
        h = np.array([hm, hm])
        chol = rng.normal(size=(3, norb, norb)) * 0.25
        chol = (chol + chol.transpose(0, 2, 1)) / 2
        C0 = c18.occ(hm, ne[0])[0] if kind == "rhf" else [c18.occ(hm, ne[0])[0], c18.occ(hm, ne[1])[0]]
        Cs, Es, res, gap = c18.solve(kind, 0.1, h, chol, ne[0], ne[1], C0, damp=0.5, iters=500)
        if res > 1e-12 or gap < 0.3:
            continue
        Cu, Eu, resu, _ = c18.solve(kind, 0.1, h, chol, ne[0], ne[1], Cs, damp=0.0, iters=30)
        drift = max(np.linalg.norm(a - b) for a, b in zip(c18.proj(kind, Cu), c18.proj(kind, Cs)))
        if drift < 1e-11:
            return kind, ne, (0.1, h, chol.reshape(3, -1)), Cs
    raise RuntimeError("no stable SCF problem found")


def run_entry(case):
    import jax.numpy as jnp
    from jax import random

    from ad_afqmc import hamiltonian, propagation, sampling, wavefunctions

    rng = np.random.default_rng(case["s"])
    nw = 8
    wt = case["wt"]
    kind, ne, ham_t, Cs = _converged_system(wt, rng, nw, case["dt"], case["shape"])
    norb = 4
    h0, h1, chol = ham_t
    if case["s"] % 2:
        # a trial that is NOT a fixed point of trial.optimize (loosely converged SCF / orbitals from another Hamiltonian): the entry points
        # with orbital relaxation then propagate with a different trial than the one the caller's cached overlaps belong to
        from checks import c18

        Cs = c18.rot(rng, np.asarray(Cs), 0.2, norb) if kind == "rhf" else [c18.rot(rng, np.asarray(Cs[0]), 0.2, norb), c18.rot(rng, np.asarray(Cs[1]), 0.2, norb)]
    if kind == "rhf":
        trial = wavefunctions.rhf(norb, ne)
        wd = {"mo_coeff": jnp.array(Cs)}
        prop = propagation.propagator_restricted(dt=case["dt"], n_walkers=nw)
    else:
        trial = wavefunctions.uhf(norb, ne)
        wd = {"mo_coeff": [jnp.array(Cs[0]), jnp.array(Cs[1])]}
        prop = propagation.propagator_unrestricted(dt=case["dt"], n_walkers=nw)
    wd["rdm1"] = trial.get_rdm1(wd)
    ham = hamiltonian.hamiltonian(norb)
    hd_raw = trials.ham_data_of(h0, h1, chol)
    hd = ham.build_measurement_intermediates(hd_raw, trial, wd)
    hd = ham.build_propagation_intermediates(hd, prop, trial, wd)
    S = {"trial": trial, "wave_data": wd, "nelec": ne, "norb": norb}
    w0 = afqmc.noisy_walkers(rng, S, nw, noise=0.5, walker_type=wt)
    pd = prop.init_prop_data(trial, wd, hd, w0)
    pd["key"] = random.PRNGKey(case["s"] % 65521)
    pd["weights"] = jnp.array(np.random.default_rng(case["s"] + 3).uniform(0.1, 3.0, size=nw))   # mid-run population: unequal weights
    pd = hooks.seed_overlap(pd)
    smp = sampling.sampler(n_prop_steps=case["shape"][0], n_ene_blocks=case["shape"][1], n_sr_blocks=case["shape"][2], n_blocks=1)
    obs = jnp.array(np.zeros((2, norb, norb)))
    fn = {"plain": None, "ad": smp.propagate_phaseless_ad, "ad_nosr": smp.propagate_phaseless_ad_nosr, "ad_norot": smp.propagate_phaseless_ad_norot,
          "ad_nosr_norot": smp.propagate_phaseless_ad_nosr_norot}[case["entry"]]
    expected = 0
    events = []
    key = "C08/entry/%s/%s" % (case["entry"], wt)
    reordered = False
    for call in range(case["calls"]):
        try:
            if fn is None:
                e, pd = smp.propagate_phaseless(ham, hd, prop, pd, trial, wd)
            else:
                e, pd = fn(ham, hd, 0.0, obs, prop, pd, trial, wd)
        except Exception as exc:
            events.append(ev("entry/callable", False, key=key + "/not-callable", exc=repr(exc)[:300]))
            return {"events": events, "nontrivial": True, "counters": {}}
        nsr = smp.n_sr_blocks if case["entry"] in ("plain", "ad", "ad_norot") else 1
        expected += nsr * smp.n_ene_blocks * smp.n_prop_steps
        pd = _outer(prop, pd, float(e))
        wl = afqmc.np_walkers(pd["walkers"])
        w_first = wl if not isinstance(wl, list) else wl[0]
        if len({tuple(np.round(x.ravel()[:3], 10)) for x in w_first}) < w_first.shape[0]:
            reordered = True   # the global reconfiguration duplicated (hence dropped) a walker
    incoh, checks = hooks.read_overlap(pd)
    if checks == 0:
        events.append(ev("hook/not-reached", None, key="C08/hook-not-reached", hard=True))
    else:
        events.append(judge("hook/overlap-incoherence", incoh, 1e-10, key + "/hook-incoherence", checks=checks))
        events.append(ev("hook/evaluations-match-history", bool(checks == expected), key=key + "/hook-count", got=checks, expected=expected))
    return {"events": events, "nontrivial": reordered, "sample": {"entry": case["entry"], "wt": wt, "hook_max_incoherence": incoh, "hook_evaluations": checks, "perturbed_trial": bool(case["s"] % 2)},
            "counters": {"hook_evaluations": checks, "perturbed_trial_entries": int(case["s"] % 2)}}


def run_driver(case):
    import jax.numpy as jnp

    from ad_afqmc import config, driver, hamiltonian, propagation, sampling, wavefunctions

    rng = np.random.default_rng(case["s"])
    nw, dt = 6, 0.02
    wt = case["wt"]
    kind, ne, ham_t, Cs = _converged_system(wt, rng, nw, dt, None)
    norb = 4
    h0, h1, chol = ham_t
    if kind == "rhf":
        trial = wavefunctions.rhf(norb, ne)
        wd = {"mo_coeff": jnp.array(Cs)}
        prop = propagation.propagator_restricted(dt=dt, n_walkers=nw)
    else:
        trial = wavefunctions.uhf(norb, ne)
        wd = {"mo_coeff": [jnp.array(Cs[0]), jnp.array(Cs[1])]}
        prop = propagation.propagator_unrestricted(dt=dt, n_walkers=nw)
    ham = hamiltonian.hamiltonian(norb)
    hd = trials.ham_data_of(h0, h1, chol)
    shape = (2, 1, 2)
    nblocks = 3
    smp = sampling.sampler(n_prop_steps=shape[0], n_ene_blocks=shape[1], n_sr_blocks=shape[2], n_blocks=nblocks)
    options = {"dt": dt, "n_walkers": nw, "n_prop_steps": shape[0], "n_ene_blocks": shape[1], "n_sr_blocks": shape[2], "n_blocks": nblocks,
               "n_ene_blocks_eql": 1, "n_sr_blocks_eql": 1, "n_eql": 1, "seed": case["s"] % 65521, "ad_mode": case["ad_mode"],
               "orbital_rotation": case["rot"], "do_sr": case["do_sr"], "walker_type": wt, "symmetry": False, "save_walkers": False,
               "trial": kind, "ene0": 0.0, "free_projection": False, "n_batch": 1}
    log = []
    events = []
    key = "C08/driver/%s/sr=%s/rot=%s/%s" % (case["ad_mode"], case["do_sr"], case["rot"], wt)
    buf = io.StringIO()
    try:
        with hooks.driver_instrumented(type(prop), log), contextlib.redirect_stdout(buf):
            driver.afqmc(hd, ham, prop, trial, wd, smp, None, options, config.not_MPI())
    except Exception as exc:
        events.append(ev("driver/completed", False, key=key + "/exception", exc=repr(exc)[:400]))
        return {"events": events, "nontrivial": True, "counters": {"driver_runs": 1}}
    if not log:
        events.append(ev("hook/not-reached", None, key="C08/hook-not-reached", hard=True))
        return {"events": events, "nontrivial": False, "counters": {"driver_runs": 1}}
    incoh = max(v for v, _ in log)
    checks = log[-1][1]
    eq = 1 * 1 * 50
    if case["ad_mode"] is None:
        per = shape[2] * shape[1] * shape[0]
    elif case["ad_mode"] == "2rdm":
        per = shape[2] * shape[1] * shape[0]
    else:
        per = (shape[2] if case["do_sr"] else 1) * shape[1] * shape[0]
    expected = eq + nblocks * per
    events.append(judge("hook/overlap-incoherence", incoh, 1e-10, key + "/hook-incoherence", checks=checks))
    events.append(ev("hook/evaluations-match-history", bool(checks == expected), key=key + "/hook-count", got=checks, expected=expected, readings=len(log)))
    return {"events": events, "nontrivial": True, "sample": {"driver": key, "hook_max_incoherence": incoh, "hook_evaluations": checks, "readings": len(log)},
            "counters": {"hook_evaluations": checks, "driver_runs": 1}}


def run_case(case):
    return {"replay": run_replay, "entry": run_entry, "driver": run_driver}[case["type"]](case)
