"""C03 - force bias equals <psi_T|L_g|phi>/<psi_T|phi> for every Cholesky operator; forward-mode,
reverse-mode and hand-coded evaluations agree."""
import numpy as np

from vlib import fockref, measure, trials
from vlib.monitor import ev, judge

ID = "C03"
LEVEL_TEXT = ("Force biases returned by every trial kind / entry point are compared component by component with the mixed "
              "expectation value of the one-body operators L_g in Fock space, and with a forward-mode derivative of the "
              "library's own overlap along exp(x L_g); held = agreed on all K generated cases.")
LEVEL_NOTE = "trusted: NumPy/SciPy, vlib.fockref, jax.jvp as the independent forward-mode differentiator"
TECHNIQUE = "runtime monitoring with an independent Fock-space reference-model oracle on call/return values"
RULE = ("cases = trial kind x norb x (n_up,n_dn) x seed with 1-3 random symmetric Cholesky matrices; non-trivial = "
        "|<psi|phi>| >= 0.05 |psi||phi| and Green's-function denominator cond <= 1e4 (walkers redrawn up to 30 times, else "
        "skipped and counted); multi-Slater references: aufbau, random, closed-shell non-aufbau")
MIN_NONTRIVIAL = {"quick": 80, "thorough": 600}
TIMEOUT = {"quick": 1800, "thorough": 9000}
ASSUMPTIONS = ["real trial parameters, complex walkers, symmetric Cholesky matrices",
               "component-wise comparison with tolerance 1e-9 max(1, ||L_g||) / overlap-relative-size",
               "the forward-mode cross-monitor is skipped for n_dn = 0 (jax.numpy.linalg.det has no JVP for a 0x0 matrix)"]
REQUIRED_COUNTERS = {"fb_u": 40, "fb_r": 30, "jvp": 15, "batched": 10}


def gen_cases(tier, seed):
    rng = np.random.default_rng([seed, 3])
    q = tier == "quick"
    cases = []
    for kind in trials.ALL_KINDS:
        norbs = [3, 4] if q else [2, 3, 4, 5]
        for norb in norbs:
            secs = measure.sectors(norb, kind)
            lim = 3 if q else 6
            if len(secs) > lim:
                idx = rng.choice(len(secs), size=lim, replace=False)
                secs = [secs[i] for i in sorted(idx)]
            for (na, nb) in secs:
                for r in range(2 if q else 5):
                    cases.append({"kind": kind, "norb": norb, "nelec": [na, nb], "nchol": int(rng.integers(1, 4)),
                                  "s": int(rng.integers(1 << 30)), "rep": r,
                                  "group": "%s-%d-%d-%d" % (kind, norb, na, nb),
                                  "cost": 3 if kind in ("multislater", "GCISD") else 1})
    return cases


def run_case(case):
    import jax
    import jax.numpy as jnp

    from checks.c02 import _draw

    rng = np.random.default_rng(case["s"])
    kind, norb = case["kind"], case["norb"]
    na, nb = case["nelec"]
    F = fockref.get(norb)
    opts = {}
    if kind == "multislater":
        opts["ms_ref"] = ["random", "aufbau", "inverted", "closed"][case["rep"] % 4] if na == nb else ["inverted", "aufbau"][case["rep"] % 2]
        if norb >= 5:
            opts["ms_ndets"] = 12
    if kind in ("rhf", "uhf") and case["rep"] % 2 == 1:
        opts["complex_orbs"] = True   # these two kinds conjugate the trial orbitals consistently: complex orbitals are admissible
    t = trials.make(kind, norb, (na, nb), rng, **opts)
    trial, wd_ = t["trial"], t["wave_data"]
    events = []
    cnt = {"fb_u": 0, "fb_r": 0, "jvp": 0, "batched": 0, "skipped_conditioning": 0}
    key0 = "C03/%s" % kind
    nontrivial = 0
    sample = None
    entries = []
    if "u" in t["entries"]:
        entries.append("u")
    if "r" in t["entries"] or kind in ("uhf", "ghf", "noci"):
        entries.append("r")
    h0, h1, chol = trials.rand_ham(rng, norb, case["nchol"], spin_dep=False)
    hd = measure.intermediates(t, h0, h1, chol)
    Lops = [F.onebody(c.reshape(norb, norb)) for c in chol]
    Lnorm = max(1.0, max(np.linalg.norm(c.reshape(norb, norb), 2) for c in chol))
    # walkers next to a node of the trial (single-determinant kinds, unrestricted entry): the overlap is tiny but not zero, the force
    # bias huge but perfectly defined.  The node is located with the reference model (secant search along a complex line), then the walker
    # is moved off it until |<psi|phi>| / (|psi||phi|) ~ 1e-7 .. 1e-9.
    if kind in ("rhf", "uhf", "ghf") and "u" in t["entries"] and na >= 1 and case["rep"] % 2 == 0:
        A_u, A_d = trials.rand_walker(rng, norb, na, nb)
        B_u = rng.normal(size=A_u.shape) + 1j * rng.normal(size=A_u.shape)
        f_ = lambda tt: complex(np.vdot(t["psi"], F.det(A_u + tt * B_u, A_d)))
        t0_, t1_ = 0.0 + 0.0j, 0.4 + 0.3j
        f0_, f1_ = f_(t0_), f_(t1_)
        for _it in range(80):
            if f1_ == f0_:
                break
            t0_, t1_, f0_ = t1_, t1_ - f1_ * (t1_ - t0_) / (f1_ - f0_), f1_
            f1_ = f_(t1_)
            if abs(f1_) < 1e-14 * abs(f_(0.0)):
                break
        if np.isfinite(abs(t1_)) and abs(f1_) < 1e-12 * abs(f_(0.0)):
            for back in (1e-7, 1e-9):
                wu_n = A_u + (t1_ + back * (1.0 + 0.5j)) * B_u
                phi_n = F.det(wu_n, A_d)
                ov_n = np.vdot(t["psi"], phi_n)
                rel_n = abs(ov_n) / (np.linalg.norm(t["psi"]) * np.linalg.norm(phi_n))
                if not (1e-12 < rel_n < 1e-4):
                    continue
                ref_n = np.array([np.vdot(t["psi"], L @ phi_n) / ov_n for L in Lops])
                fb_n = np.asarray(trial._calc_force_bias(jnp.array(wu_n), jnp.array(A_d), hd, wd_))
                scale_n = float(np.max(np.abs(ref_n)))
                # both sides lose ~ eps / rel digits: judged relative to the (huge) force bias itself
                events.append(judge("force-bias/near-node-u", float(np.max(np.abs(fb_n - ref_n))) / scale_n, max(1e-6, 1e-13 / rel_n), key0 + "/fb-near-node",
                                    ovl_rel=float(rel_n), force_bias_scale=scale_n))
                cnt["near_node"] = cnt.get("near_node", 0) + 1
    for entry in entries:
        ws, refs = [], []
        for _ in range(4):
            d = _draw(rng, F, t, kind, norb, na, nb, entry == "r")
            if d is None:
                cnt["skipped_conditioning"] += 1
                continue
            wu, wd, phi, rel, cond = d
            ov = np.vdot(t["psi"], phi)
            ref = np.array([np.vdot(t["psi"], L @ phi) / ov for L in Lops])
            if entry == "u":
                fb = np.asarray(trial._calc_force_bias(jnp.array(wu), jnp.array(wd), hd, wd_))
            else:
                fb = np.asarray(trial._calc_force_bias_restricted(jnp.array(wu), hd, wd_))
            tol = 2e-11 * Lnorm * (1 + cond / 10) / rel   # observed residuals stay below 1e-4 of this on the pinned tree (all kinds, both tiers)
            events.append(judge("force-bias/single-" + entry, float(np.max(np.abs(fb - ref))), tol,
                                "%s/fb-%s" % (key0, entry), code=fb, ref=ref, ovl_rel=rel))
            cnt["fb_" + entry] += 1
            nontrivial += 1
            ws.append((wu, wd))
            refs.append(ref)
            if len(ws) == 1:
                # the force bias is a ratio: it does not depend on the norm of the walker (small / large norms, un-normalised walkers)
                for sc_ in (1e-3, 1e2):
                    if entry == "u":
                        fbs = np.asarray(trial._calc_force_bias(jnp.array(sc_ * wu), jnp.array(sc_ * wd), hd, wd_))
                    else:
                        fbs = np.asarray(trial._calc_force_bias_restricted(jnp.array(sc_ * wu), hd, wd_))
                    events.append(judge("force-bias/walker-rescaled-" + entry, float(np.max(np.abs(fbs - ref))), 10 * tol, "%s/fb-rescaled-%s" % (key0, entry), scale=sc_))
            if sample is None:
                sample = {"entry": entry, "code": fb, "ref": ref, "ovl_rel": rel}
        # forward-mode derivative of the library's own overlap along exp(x L_g)
        if ws and nb > 0:  # jax's det JVP is undefined for the empty (0x0) beta block
            wu, wd = ws[0]
            cm = chol.reshape(-1, norb, norb)

            def ovl(x, g):
                Lg = jnp.array(cm[g])
                if entry == "u":
                    return trial._calc_overlap(jnp.array(wu) + x * Lg @ jnp.array(wu), jnp.array(wd) + x * Lg @ jnp.array(wd), wd_)
                return trial._calc_overlap_restricted(jnp.array(wu) + x * Lg @ jnp.array(wu), wd_)

            fwd = []
            for g in range(cm.shape[0]):
                val, tan = jax.jvp(lambda x: ovl(x, g), (0.0,), (1.0,))
                fwd.append(complex(tan) / complex(val))
            if entry == "u":
                fb = np.asarray(trial._calc_force_bias(jnp.array(wu), jnp.array(wd), hd, wd_))
            else:
                fb = np.asarray(trial._calc_force_bias_restricted(jnp.array(wu), hd, wd_))
            events.append(judge("force-bias/forward-vs-reported-" + entry, float(np.max(np.abs(np.array(fwd) - fb))),
                                1e-8 * Lnorm * 20, "%s/fb-forward-%s" % (key0, entry)))
            cnt["jvp"] += 1
        if len(ws) == 4 and case["rep"] == 0:
            import copy

            for n_batch in (1, 2, 4):
                tb = copy.copy(trial)
                tb.n_batch = n_batch
                if entry == "u":
                    fbb = np.asarray(tb.calc_force_bias([jnp.array(np.array([w[0] for w in ws])), jnp.array(np.array([w[1] for w in ws]))], hd, wd_))
                else:
                    fbb = np.asarray(tb.calc_force_bias(jnp.array(np.array([w[0] for w in ws])), hd, wd_))
                r = max(float(np.max(np.abs(fbb[i] - refs[i]))) for i in range(4))
                events.append(judge("force-bias/batched-" + entry, r, 1e-7 * Lnorm, "%s/fb-batched-%s" % (key0, entry),
                                    n_batch=n_batch, shape=list(fbb.shape)))
                cnt["batched"] += 1
    # ---- rebuild on a ham_data that already carries intermediates of other trial parameters / another Hamiltonian
    if case["rep"] <= 1 and entries:
        from ad_afqmc import hamiltonian

        entry = entries[case["rep"] % len(entries)]
        rng2 = np.random.default_rng(case["s"] + 101)
        t2 = trials.make(kind, norb, (na, nb), rng2, **opts)
        h0b, h1b, cholb = trials.rand_ham(rng2, norb, case["nchol"], spin_dep=False)
        hd_re = dict(hd)
        hd_re.update(trials.ham_data_of(h0b, h1b, cholb))
        try:
            hd_re = hamiltonian.hamiltonian(norb).build_measurement_intermediates(hd_re, t2["trial"], t2["wave_data"])
            d = _draw(rng2, F, t2, kind, norb, na, nb, entry == "r")
            if d is not None:
                wu, wd, phi, rel, cond = d
                ov = np.vdot(t2["psi"], phi)
                ref = np.array([np.vdot(t2["psi"], F.onebody(c.reshape(norb, norb)) @ phi) / ov for c in cholb])
                if entry == "u":
                    fb = np.asarray(t2["trial"]._calc_force_bias(jnp.array(wu), jnp.array(wd), hd_re, t2["wave_data"]))
                else:
                    fb = np.asarray(t2["trial"]._calc_force_bias_restricted(jnp.array(wu), hd_re, t2["wave_data"]))
                events.append(judge("force-bias/after-rebuild-" + entry, float(np.max(np.abs(fb - ref))), 1e-9 * Lnorm * 10 * (1 + cond / 10) / rel,
                                    "%s/fb-rebuild-%s" % (key0, entry)))
                cnt["rebuild"] = cnt.get("rebuild", 0) + 1
        except Exception as exc:
            events.append(ev("force-bias/rebuild-raised", False, key="%s/fb-rebuild-exception" % key0, exc=repr(exc)[:300]))
    if kind == "multislater" and getattr(trial, "max_excitation", 0) >= 2 and "u" in t["entries"]:
        # history on ONE trial object: its excitation cut-off lowered in place after it has been used (same wave_data) - the force bias
        # must be that of a freshly constructed trial with the new cut-off (trial objects are hashed static arguments of jitted methods)
        from ad_afqmc import wavefunctions as wf_

        k_cut = int(trial.max_excitation) - 1
        fresh = wf_.multislater(norb, (na, nb), max_excitation=k_cut)
        wu_m, wd_m = trials.rand_walker(rng, norb, na, nb)
        _ = np.asarray(trial._calc_force_bias(jnp.array(wu_m), jnp.array(wd_m), hd, wd_))          # used with the old cut-off
        trial.max_excitation = k_cut
        fb_mut = np.asarray(trial._calc_force_bias(jnp.array(wu_m), jnp.array(wd_m), hd, wd_))
        fb_new = np.asarray(fresh._calc_force_bias(jnp.array(wu_m), jnp.array(wd_m), hd, wd_))
        sc_m = max(1.0, float(np.max(np.abs(fb_new))))
        events.append(judge("force-bias/cut-off-lowered-in-place-equals-fresh-trial", float(np.max(np.abs(fb_mut - fb_new))) / sc_m, 1e-10,
                            key0 + "/fb-mutated-trial-object", new_cutoff=k_cut))
        cnt["mutated_trial_objects"] = 1
    return {"events": events, "nontrivial": nontrivial > 0, "sample": sample, "counters": cnt}
