"""C17 - Cholesky factorisations reproduce their input and stay differentiable."""
import numpy as np

from vlib.monitor import ev, judge

ID = "C17"
LEVEL_TEXT = ("Post-condition monitor on the return values of the three routines over generated PSD matrices (all ranks, bad "
              "scaling, tied pivots) and molecular ERIs; derivative of the JAX routine against the analytic rank-preserving "
              "derivative and central finite differences. Held = on all generated inputs.")
LEVEL_NOTE = "trusted: NumPy, pyscf's int2e integrals as ground truth for the shell-chunked variant"
TECHNIQUE = "runtime monitoring: reconstruction post-condition + derivative-vs-analytic/finite-difference oracle"
RULE = ("cases = routine (numpy threshold routine / jax fixed-count routine / shell-chunked) x matrix class (random rank r of n<=12, "
        "full rank, rank one, scaled diagonals 1e-8..1e4, block-of-ones tied pivots, symmetrised Cholesky-built ERI) x "
        "threshold 1e-3..1e-10 x seed; non-trivial = rank >= 2 or n >= 3; jax derivative cases need cond(V^T V) <= 1e6")
MIN_NONTRIVIAL = {"quick": 50, "thorough": 500}
TIMEOUT = {"quick": 900, "thorough": 3600}
ASSUMPTIONS = ["inputs symmetric positive semi-definite",
               "element-wise tolerance = threshold + 1e-9 max(1, max|M|) (regulariser 1e-10 in the NumPy routine, round-off)",
               "JAX routine judged only when asked for exactly rank vectors (more vectors than the rank divide by ~0 by design)"]
REQUIRED_COUNTERS = {"numpy_routine": 40, "jax_routine": 20, "jax_derivative": 10, "chunked": 2}


def gen_cases(tier, seed):
    rng = np.random.default_rng([seed, 17])
    q = tier == "quick"
    cases = []
    classes = ["lowrank", "fullrank", "rankone", "scaled", "blocks", "eri", "banded", "hubbard"]
    for cl in classes:
        for rep in range(10 if q else 600):
            cases.append({"type": "numpy", "class": cl, "s": int(rng.integers(1 << 30)),
                          "thr": float(10.0 ** (-int(rng.integers(3, 11)))), "group": "np"})
    for cl in ["lowrank", "fullrank", "rankone", "eri", "scaled", "tiny", "scaledfull", "blocks", "hubbard", "banded"]:
        for rep in range(6 if q else 250):
            cases.append({"type": "jax", "class": cl, "s": int(rng.integers(1 << 30)), "n": int(rng.integers(2, 9)),
                          "group": "jax-%d" % (rep % 8), "cost": 3})
    mols = ["h2", "h4", "lih", "h2far", "h6chain"] if q else ["h2", "h4", "lih", "h4ring", "h2-631g", "h4-631g", "oh", "h2far", "h6chain", "lihfar"]
    for m in mols:
        for thr in ([3e-3, 1e-3, 1e-4, 1e-5, 1e-6, 1e-7] if q else [1e-2, 3e-3, 1e-3, 3e-4, 1e-4, 1e-5, 1e-6, 1e-7, 1e-8, 1e-9]):
            cases.append({"type": "chunked", "mol": m, "thr": thr, "s": int(rng.integers(1 << 30)), "group": "mol-" + m, "cost": 3})
    return cases


def make_matrix(rng, cl, n=None):
    n = n or int(rng.integers(1, 13))
    if cl == "lowrank":
        r = int(rng.integers(1, n + 1))
        v = rng.normal(size=(n, r))
    elif cl == "fullrank":
        r = n
        v = rng.normal(size=(n, n))
    elif cl == "rankone":
        r = 1
        v = rng.normal(size=(n, 1))
    elif cl == "scaled":
        r = int(rng.integers(1, n + 1))
        v = rng.normal(size=(n, r)) * (10.0 ** rng.uniform(-4, 2, size=n))[:, None]
    elif cl == "tiny":
        r = int(rng.integers(1, n + 1))
        v = rng.normal(size=(n, r)) * 10.0 ** rng.uniform(-7, -3)
    elif cl == "scaledfull":
        r = n
        v = rng.normal(size=(n, n)) * (10.0 ** rng.uniform(-5, 1, size=n))[:, None]
    elif cl == "hubbard":
        # on-site interaction in the (pq) pair basis: exactly equal diagonal entries (ii|ii) = U, exact ties between different pivots
        norb = int(rng.integers(2, 4))
        n = norb * norb
        v = np.zeros((n, norb))
        u = float(rng.choice([1.0, 4.0, 8.0]))
        for g in range(norb):
            v[g * norb + g, g] = np.sqrt(u)
        r = norb
    elif cl == "banded":
        # lattice-model interaction matrices: many exact zeros, yet every site coupled to every other one indirectly (fill-in during
        # elimination): on-site U plus nearest-neighbour V on a chain or ring, positive definite by diagonal dominance
        n = n if n >= 3 else 3
        u = float(rng.choice([2.0, 4.0, 8.0]))
        vnn = float(rng.uniform(0.2, 0.9)) * u / 2.0
        m = np.eye(n) * u
        for i in range(n - 1):
            m[i, i + 1] = m[i + 1, i] = vnn
        if rng.random() < 0.5 and n > 3:
            m[0, n - 1] = m[n - 1, 0] = vnn
        w_, q_ = np.linalg.eigh(m)
        v = q_ * np.sqrt(np.clip(w_, 0.0, None))
        r = n
        return m, v, r
    elif cl == "blocks":
        k = int(rng.integers(1, 4))
        m = int(rng.integers(1, 4))
        n = k * m
        v = np.kron(np.eye(k), np.ones((m, 1)))
        r = k
    elif cl == "eri":
        norb = int(rng.integers(2, 4))
        r = int(rng.integers(1, 4))
        c = rng.normal(size=(r, norb, norb))
        c = (c + c.transpose(0, 2, 1)) / 2
        v = c.reshape(r, norb * norb).T
        n = norb * norb
    return v @ v.T, v, r


def run_numpy(case):
    from ad_afqmc import pyscf_interface

    rng = np.random.default_rng(case["s"])
    M, v, r = make_matrix(rng, case["class"])
    thr = case["thr"]
    L = pyscf_interface.modified_cholesky(M.copy(), thr)
    err = float(np.max(np.abs(L.T @ L - M))) if L.size else float(np.max(np.abs(M)))
    tol = thr + 1e-9 * max(1.0, float(np.max(np.abs(M))))
    n = M.shape[0]
    full = (r == n)
    key = "C17/numpy/%s/%s" % (case["class"], "full-rank" if full else "rank-deficient")
    e = judge("numpy/reconstruction", err, tol, key, n=n, rank=r, nvec=int(L.shape[0]), thr=thr)
    return {"events": [e], "nontrivial": bool(n >= 3 or r >= 2),
            "sample": {"n": n, "rank": r, "threshold": thr, "vectors": int(L.shape[0]), "max_error": err},
            "counters": {"numpy_routine": 1}}


def run_jax(case):
    import jax
    import jax.numpy as jnp

    from ad_afqmc import linalg_utils

    rng = np.random.default_rng(case["s"])
    M, v, r = make_matrix(rng, case["class"], case["n"])
    n = M.shape[0]
    # pivoted Cholesky is invariant under diagonal scaling D M D: judge conditioning and errors after normalising the rows of V
    rown = np.linalg.norm(v, axis=1)
    rown = np.where(rown > 0, rown, 1.0)
    keep = np.linalg.norm(v, axis=1) > 0
    sv = np.linalg.svd((v / rown[:, None])[keep], compute_uv=False)
    cond = float((sv[0] / sv[r - 1]) ** 2) if sv[r - 1] > 0 else float("inf")
    events = []
    cnt = {"jax_routine": 0, "jax_derivative": 0, "jax_skipped_cond": 0}
    if cond > 1e6:
        cnt["jax_skipped_cond"] = 1
        return {"events": [ev("jax/skip", None, key="C17/jax/skip-ill-conditioned", cond=cond)], "nontrivial": False, "counters": cnt}
    key = "C17/jax/%s" % case["class"]

    def recon(mat):
        L = linalg_utils.modified_cholesky(mat, n, r)
        return L.T @ L

    R = np.asarray(recon(jnp.array(M)))
    nrm = max(1e-300, float(np.max(np.abs(M))))
    dscale = np.outer(rown, rown)
    events.append(judge("jax/exact-at-rank", float(np.max(np.abs(R - M) / dscale)), 1e-10 * max(1.0, cond), key + "/exact-at-rank",
                        n=n, rank=r, cond=cond, scale=nrm))
    cnt["jax_routine"] = 1
    # derivative along a rank-preserving symmetric direction
    v1 = rng.normal(size=v.shape)
    dM = v1 @ v.T + v @ v1.T
    prim, tan = jax.jvp(recon, (jnp.array(M),), (jnp.array(dM),))
    tan = np.asarray(tan)
    fin = bool(np.all(np.isfinite(tan)))
    events.append(ev("jax/derivative-finite", fin, key=key + "/derivative-finite"))
    if fin:
        v1n = np.linalg.norm(v1, axis=1)
        dsc = np.outer(rown, np.maximum(v1n, rown)) + np.outer(np.maximum(v1n, rown), rown)
        scale = max(1e-300, float(np.max(np.abs(dM))))
        events.append(judge("jax/derivative-vs-analytic", float(np.max(np.abs(tan - dM) / dsc)), 1e-7 * max(1.0, cond),
                            key + "/derivative-vs-analytic", n=n, rank=r))
        h = 1e-5
        vp, vm = v + h * v1, v - h * v1
        fd = (np.asarray(recon(jnp.array(vp @ vp.T))) - np.asarray(recon(jnp.array(vm @ vm.T)))) / (2 * h)
        events.append(judge("jax/derivative-vs-finite-difference", float(np.max(np.abs(tan - fd))) / scale, 1e-5 * max(1.0, cond ** 0.5),
                            key + "/derivative-vs-fd"))
        # reverse mode: gradient of a scalar functional of the reconstruction
        wgt = rng.normal(size=M.shape)
        g = np.asarray(jax.grad(lambda m: jnp.sum(recon(m) * jnp.array(wgt)))(jnp.array(M)))
        lhs = float(np.sum(g * dM))
        rhs = float(np.sum(wgt * dM))
        events.append(judge("jax/reverse-mode-consistent", abs(lhs - rhs) / max(1e-300, abs(rhs), scale), 1e-7 * max(1.0, cond ** 0.5),
                            key + "/reverse-mode"))
        cnt["jax_derivative"] = 1
    return {"events": events, "nontrivial": bool(n >= 3 or r >= 2),
            "sample": {"n": n, "rank": r, "cond": cond, "max_error": float(np.max(np.abs(R - M)))}, "counters": cnt}


def _mol(name, rng):
    from pyscf import gto

    j = lambda: float(rng.normal() * 0.05)
    if name.startswith("h2") and name != "h2far":
        atom = "H 0 0 0; H 0 0 %f" % (0.74 + j())
    elif name == "h2far":      # extended geometries: AO pairs with tiny diagonal (ij|ij) that still couple to strong pairs
        return gto.M(atom="H 0 0 0; H 0 0 %f" % (8.0 + j()), unit="bohr", basis="sto-3g", verbose=0)
    elif name == "h6chain":
        return gto.M(atom="; ".join("H 0 0 %f" % (i * 2.4 + j()) for i in range(6)), unit="bohr", basis="sto-6g", verbose=0)
    elif name == "lihfar":
        return gto.M(atom="Li 0 0 0; H 0 0 %f" % (6.0 + j()), unit="bohr", basis="6-31g", verbose=0)
    elif name.startswith("h4ring"):
        atom = "; ".join("H %f %f 0" % (1.2 * np.cos(t) + j(), 1.2 * np.sin(t) + j()) for t in np.arange(4) * np.pi / 2)
    elif name.startswith("h4"):
        atom = "; ".join("H 0 0 %f" % (i * 1.0 + j()) for i in range(4))
    elif name == "lih":
        atom = "Li 0 0 0; H 0 0 %f" % (1.6 + j())
    elif name == "oh":
        atom = "O 0 0 0; H 0 0 %f" % (0.97 + j())
    basis = "6-31g" if name.endswith("631g") else "sto-3g"
    spin = 1 if name == "oh" else 0
    return gto.M(atom=atom, basis=basis, spin=spin, verbose=0)


def run_chunked(case):
    from ad_afqmc import pyscf_interface

    rng = np.random.default_rng(case["s"])
    mol = _mol(case["mol"], rng)
    nao = mol.nao_nr()
    eri = mol.intor("int2e").reshape(nao * nao, nao * nao)
    L = pyscf_interface.chunked_cholesky(mol, max_error=case["thr"])
    err = float(np.max(np.abs(L.T @ L - eri)))
    tol = case["thr"] + 1e-9 * float(np.max(np.abs(eri)))
    e = judge("chunked/reconstruction", err, tol, "C17/chunked", mol=case["mol"], nao=nao, nvec=int(L.shape[0]), thr=case["thr"])
    events = [e]
    # the smallest work buffer that can hold the decomposition (cmax * nao rows, one of them spare): same vectors, same accuracy
    cmin = -(-(int(L.shape[0]) + 1) // nao)
    if cmin < 10:
        L2 = pyscf_interface.chunked_cholesky(mol, max_error=case["thr"], cmax=cmin)
        err2 = float(np.max(np.abs(L2.T @ L2 - eri)))
        events.append(judge("chunked/reconstruction-with-minimal-buffer", err2, tol, "C17/chunked/minimal-buffer", mol=case["mol"], nao=nao, nvec=int(L2.shape[0]),
                            nvec_default_buffer=int(L.shape[0]), cmax=cmin, exact_fit=bool(cmin * nao == int(L.shape[0]) + 1), thr=case["thr"]))
    return {"events": events, "nontrivial": True, "sample": {"mol": case["mol"], "nao": nao, "vectors": int(L.shape[0]), "max_error": err},
            "counters": {"chunked": 1}}


def run_case(case):
    return {"numpy": run_numpy, "jax": run_jax, "chunked": run_chunked}[case["type"]](case)
