"""C04 - the phaseless step is an exact importance-sampling reweighting of exp(-dt H).

The field average is taken exactly: a batch of K identical walkers is propagated by ONE call of the
real prop.propagate with `fields` = the K tensor Gauss-Hermite nodes; the complex importance
function and theta are observed through the guarded hook H1 (pre-seeded prop_data keys)."""
import math

import numpy as np

from vlib import afqmc, fockref, quad, trials
from vlib.monitor import ev, judge

ID = "C04"
LEVEL_TEXT = ("One real propagate() call on quadrature-node fields gives the exact field average of I x |phi'>/o' (I observed through the "
              "hook); it is compared in Fock space with exp(-dt (H - E_shift)) |phi>/o over a dt ladder (order of convergence), and the "
              "applied weight with the stated projection / window rule recomputed from the observed I and an independently computed theta. "
              "Held = on all generated Hamiltonians / trials / walkers / shifts.")
LEVEL_NOTE = "trusted: NumPy/SciPy expm, vlib.fockref, Gauss-Hermite quadrature (convergence checked with n and n+4 nodes, else inconclusive); norb = 3"
TECHNIQUE = "runtime monitoring: hooked internal state (importance function, theta) + exact quadrature average + Fock-space propagator oracle"
RULE = ("cases = trial kind x (restricted | unrestricted propagator) x (n_up,n_dn) x 1-3 Cholesky matrices x mean-field rdm1 (trial's or random "
        "symmetric) x E_shift x complex non-orthonormal walker; dt ladder 0.02/0.01/0.005; window cases push |I| outside [1e-3,100], use old "
        "weights near the product cap, and inject NaN/inf fields; non-trivial = residual at the coarsest dt above 1e-9 so the order can be "
        "measured, or a window branch actually taken")
MIN_NONTRIVIAL = {"quick": 10, "thorough": 60}
TIMEOUT = {"quick": 2400, "thorough": 10800}
ASSUMPTIONS = ["||H|| = O(1), dt <= 0.02 (asymptotic regime of the ladder)", "n_exp_terms = 6 (default)",
               "hook H1 exposes the complex importance function and theta of propagate(); the weight law is re-derived from those observations"]
REQUIRED_COUNTERS = {"hook_reads": 20, "ladders": 8, "window_cases": 2}


def gen_cases(tier, seed):
    rng = np.random.default_rng([seed, 4])
    q = tier == "quick"
    cases = []
    combos = [("uhf", "uhf", (2, 1)), ("uhf", "uhf", (1, 1)), ("rhf", "rhf", (1, 1)), ("rhf", "uhf", (1, 1)), ("noci", "uhf", (2, 1)),
              ("uhf", "rhf", (1, 1)), ("noci", "rhf", (1, 1)), ("uhf", "uhf", (2, 0))]
    if not q:
        combos += [("ghf", "uhf", (2, 1)), ("multislater", "uhf", (2, 1)), ("cisd", "rhf", (1, 1)), ("ucisd", "uhf", (2, 1)),
                   ("UCISD", "uhf", (1, 1)), ("multislater", "rhf", (1, 1)), ("ghf", "uhf", (1, 1)), ("CISD", "rhf", (1, 1)), ("uhf", "uhf", (2, 2))]
    for (kind, wt, ne) in combos:
        for rep in range(2 if q else 8):
            nchol = int(rng.choice([1, 2, 2, 3])) if not q else int(rng.choice([1, 2, 2]))
            cases.append({"type": "ladder", "kind": kind, "wt": wt, "nelec": list(ne), "norb": 3, "nchol": nchol,
                          "rdm1": str(rng.choice(["trial", "random"])), "eshift": float(rng.normal() * 0.7), "s": int(rng.integers(1 << 30)),
                          "group": "lad-%s-%s-%s-%d-%d" % (kind, wt, ne, nchol, rep), "cost": 10 * 3 ** nchol})
    for (kind, wt, ne) in [("uhf", "uhf", (2, 1)), ("rhf", "rhf", (1, 1)), ("noci", "uhf", (1, 1))]:
        for rep in range(1 if q else 6):
            cases.append({"type": "window", "kind": kind, "wt": wt, "nelec": list(ne), "norb": 3, "nchol": 2, "s": int(rng.integers(1 << 30)),
                          "group": "win-%s-%s-%d" % (kind, wt, rep), "cost": 20})
    return cases


def finalize(results, tier, seed):
    """a quadrature that does not converge decides nothing: more than 10 % such ladders (none occur on the pinned tree) => inconclusive"""
    lad = sum(1 for r in results if r["case"].get("type") == "ladder")
    bad = sum((r.get("counters") or {}).get("quadrature_not_converged", 0) for r in results)
    if lad and bad > max(1, 0.1 * lad):
        return [ev("quadrature/too-many-not-converged", None, key="C04/quadrature-not-converged", hard=True, ladders=lad, not_converged=bad)]
    return []


def _system(case, rng, dt, K, force_batch=None):
    seed_t = case["s"]
    norb = case["norb"]
    # unrestricted walkers: spin-dependent h1 for the spin-unrestricted kinds; restricted walkers: the propagator is defined with the spin
    # average of the one-body matrices (the measurements entering the step - overlap, force bias - do not involve h1), so half of the
    # restricted cases get spin-dependent h1 too and are judged against H built from the average
    sd = (case["wt"] == "uhf" and case["kind"] in trials.SPIN_DEP_H1) or (case["wt"] == "rhf" and seed_t % 2 == 0)
    ham = trials.rand_ham(np.random.default_rng(seed_t + 11), norb, case["nchol"], spin_dep=sd, chol_scale=0.6)
    # the step must not depend on how the population of quadrature nodes is split into batches (unequal batch count / batch size on purpose)
    nbs = [b for b in (1, 2, 3, K // 2) if b >= 1 and K % b == 0 and (b == 1 or b != K // b)]
    n_batch = nbs[(seed_t // 3) % len(nbs)] if force_batch is None else force_batch
    S = afqmc.make_system(case["kind"], norb, tuple(case["nelec"]), np.random.default_rng(seed_t), walker_type=case["wt"], dt=dt, n_walkers=K,
                          nchol=case["nchol"], ham=ham, n_batch=n_batch, trial_batch=[1, n_batch][seed_t % 2], rdm1=case.get("rdm1", "trial") if case.get("rdm1") != "random" else "random",
                          ene0=float(np.random.default_rng(seed_t + 13).choice([0.0, -2.0, 1.5])),   # must be irrelevant for the phaseless step
                          orthonormal=False if case["kind"] in ("uhf", "rhf", "noci", "ghf") else True,
                          trial_opts={"ms_ndets": 6} if case["kind"] == "multislater" else None)
    return S


def _walker(case, rng, S):
    """one complex non-orthonormal walker with decent overlap"""
    from vlib import measure

    norb = case["norb"]
    na, nb = case["nelec"]
    F = fockref.get(norb)
    psi = S["t"]["psi"]
    for _ in range(50):
        wu, wd = trials.rand_walker(rng, norb, na, nb)
        if case["wt"] == "rhf":
            wd = wu[:, :nb]
        phi = F.det(wu, wd)
        rel = abs(np.vdot(psi, phi)) / (np.linalg.norm(psi) * np.linalg.norm(phi))
        if rel > 0.15 and measure.cond_filter(case["kind"], S["t"], wu, wd) < 1e3:
            return wu, wd, phi
    return wu, wd, phi


def _propagate_nodes(case, S, wu, wd, nodes, eshift, weights0=None):
    import jax.numpy as jnp

    K = nodes.shape[0]
    prop, trial, hd, wdat = S["prop"], S["trial"], S["ham_data"], S["wave_data"]
    if case["wt"] == "rhf":
        w = jnp.array(np.repeat(wu[None], K, 0))
    else:
        w = [jnp.array(np.repeat(wu[None], K, 0)), jnp.array(np.repeat(wd[None], K, 0))]
    pd = {"walkers": w, "weights": jnp.array(np.ones(K) if weights0 is None else weights0),
          "overlaps": trial.calc_overlap(w, wdat), "e_estimate": jnp.array(0.1), "pop_control_ene_shift": jnp.array(eshift),
          "verif_imp_fun": jnp.zeros(K, dtype=complex), "verif_theta": jnp.zeros(K)}
    o_old = complex(np.asarray(pd["overlaps"])[0])
    out = prop.propagate(trial, hd, pd, jnp.array(nodes), wdat)
    res = {"I": np.asarray(out["verif_imp_fun"]), "theta": np.asarray(out["verif_theta"]), "weights": np.asarray(out["weights"]),
           "overlaps": np.asarray(out["overlaps"]), "walkers": afqmc.np_walkers(out["walkers"]), "o_old": o_old,
           "shift_new": float(out["pop_control_ene_shift"])}
    return res


def _fock_walker(F, case, walkers, k):
    na, nb = case["nelec"]
    if case["wt"] == "rhf":
        return F.det(walkers[k][:, :na], walkers[k][:, :nb])
    return F.det(walkers[0][k], walkers[1][k])


def _window(x):
    """documented projection: NaN -> 0, < 1e-3 -> 0, > 100 -> 0"""
    x = np.where(np.isnan(x), 0.0, x)
    x = np.where(x < 1e-3, 0.0, x)
    x = np.where(x > 100.0, 0.0, x)
    return x


def _weight_law(case, S, res, nodes, dt, eshift, wu, wd, phi, weights0, events, key, F):
    """returned weight == old weight x window(|I| max(0, cos theta)), product > 100 -> 0; theta recomputed independently."""
    norb = case["norb"]
    psi = S["t"]["psi"]
    chol = np.asarray(S["chol"]).reshape(-1, norb, norb)
    ov = np.vdot(psi, phi)
    fb = np.array([np.vdot(psi, F.onebody(c) @ phi) / ov for c in chol])
    rdm = np.asarray(S["wave_data"]["rdm1"])
    m = np.array([np.sum(c * (rdm[0] + rdm[1])) for c in chol])
    fs = -1j * math.sqrt(dt) * (fb - m)
    shift_term = 1j * np.sum((nodes - fs[None]) * m[None], axis=1)
    K = nodes.shape[0]
    o_new_ref = np.array([np.vdot(psi, _fock_walker(F, case, res["walkers"], k)) for k in range(min(K, 40))])
    kk = np.arange(min(K, 40))
    ratio = o_new_ref / ov
    theta_ref = np.angle(np.exp(-math.sqrt(dt) * shift_term[kk]) * ratio)
    dth = np.abs(np.angle(np.exp(1j * (res["theta"][kk] - theta_ref))))
    events.append(judge("weight/theta-is-phase-of-overlap-ratio", float(np.max(dth)), 1e-8, key + "/theta"))
    # importance function itself, recomputed from the formula with reference force bias / overlaps
    h0_prop = -S["h0"] - np.sum((1j * m) ** 2) / 2.0
    fb_term = np.sum(nodes * fs[None] - fs[None] ** 2 / 2.0, axis=1)
    I_ref = np.exp(-math.sqrt(dt) * shift_term[kk] + fb_term[kk] + dt * (eshift + h0_prop)) * ratio
    events.append(judge("weight/importance-function-formula", float(np.max(np.abs(res["I"][kk] - I_ref) / np.maximum(1e-300, np.abs(I_ref)))), 1e-8, key + "/imp-fun"))
    w0 = np.ones(K) if weights0 is None else np.asarray(weights0)
    fac = _window(np.abs(res["I"]) * np.cos(res["theta"]))
    wexp = fac * w0
    wexp = np.where(wexp > 100.0, 0.0, wexp)
    bad = np.abs(res["weights"] - wexp) > 1e-12 * np.maximum(1.0, np.abs(wexp))
    events.append(ev("weight/law", not bool(bad.any()), float(np.max(np.abs(res["weights"] - wexp))), 1e-12, key + "/weight-law",
                     n_zero=int(np.sum(res["weights"] == 0)), n=K))
    events.append(ev("weight/real-nonnegative-finite", bool(np.all(np.isfinite(res["weights"])) and np.all(res["weights"] >= 0) and np.isrealobj(res["weights"])),
                     key=key + "/weights-real-finite"))
    return fac


def run_ladder(case):
    rng = np.random.default_rng(case["s"] + 5)
    norb = case["norb"]
    F = fockref.get(norb)
    nf = case["nchol"]
    n_lo = {1: 14, 2: 10, 3: 8}[nf]
    n_hi = n_lo + 4
    events = []
    cnt = {"hook_reads": 0, "ladders": 0, "quadrature_not_converged": 0}
    key = "C04/%s/%s" % (case["wt"], case["kind"])
    dts = [0.02, 0.01, 0.005, 0.0025]
    resid = []
    rvecs = []
    wu = wd = phi = None
    sample = {}
    for dt in dts:
        vals = []
        for n in (n_lo, n_hi):
            nodes, wq = quad.tensor_nodes(n, nf)
            S = _system(case, rng, dt, nodes.shape[0])
            if wu is None:
                wu, wd, phi = _walker(case, rng, S)
            res = _propagate_nodes(case, S, wu, wd, nodes, case["eshift"])
            cnt["hook_reads"] += 1
            if not np.any(res["I"] != 0):
                events.append(ev("hook/not-reached", None, key="C04/hook-not-reached", hard=True))
                return {"events": events, "nontrivial": False, "counters": cnt}
            lhs = np.zeros(F.dim, dtype=complex)
            for k in range(nodes.shape[0]):
                lhs = lhs + wq[k] * res["I"][k] * _fock_walker(F, case, res["walkers"], k) / res["overlaps"][k]
            vals.append(lhs)
            if n == n_lo:
                _weight_law(case, S, res, nodes, dt, case["eshift"], wu, wd, phi, None, events, key, F)
            if n == n_lo and dt == dts[0] and S["prop"].n_batch > 1:
                # what the quadrature integrates must be a function of (walker, field node) alone: the same nodes through an unbatched
                # propagator give the same per-node importance factors, walkers and overlaps (otherwise the n / n+4 comparison below
                # would merely report "quadrature not converged")
                S1 = _system(case, rng, dt, nodes.shape[0], force_batch=1)
                res1 = _propagate_nodes(case, S1, wu, wd, nodes, case["eshift"])
                cnt["hook_reads"] += 1
                d_i = float(np.max(np.abs(res["I"] - res1["I"])) / max(1.0, float(np.max(np.abs(res1["I"])))))
                wa, wb = res["walkers"], res1["walkers"]
                d_w = max(float(np.max(np.abs(a - b))) if a.size else 0.0 for a, b in (zip(wa, wb) if isinstance(wa, list) else [(wa, wb)]))
                d_o = float(np.max(np.abs(res["overlaps"] - res1["overlaps"]) / np.maximum(np.abs(res1["overlaps"]), 1e-300)))
                events.append(judge("step/independent-of-batch-split", max(d_i, d_w, d_o), 1e-9, key + "/batch-split",
                                    n_batch=int(S["prop"].n_batch), nodes=int(nodes.shape[0]), parts={"I": d_i, "walkers": d_w, "overlaps": d_o}))
        h1 = np.asarray(S["h1"])
        if case["wt"] == "rhf":
            hav = (h1[0] + h1[1]) / 2
            H = F.hamiltonian(S["h0"], hav, hav, S["chol"])
        else:
            H = F.hamiltonian(S["h0"], h1[0], h1[1], S["chol"])
        rhs = F.expm_apply(H - case["eshift"] * __import__("scipy.sparse").sparse.identity(F.dim), phi, dt) / res["o_old"]
        nr = np.linalg.norm(rhs)
        qerr = np.linalg.norm(vals[0] - vals[1]) / nr
        r = np.linalg.norm(vals[1] - rhs) / nr
        if qerr > max(1e-10, 0.02 * r):
            cnt["quadrature_not_converged"] += 1
            events.append(ev("quadrature/not-converged", None, key="C04/quadrature-not-converged", qerr=float(qerr), dt=dt))
            return {"events": events, "nontrivial": False, "counters": cnt}
        resid.append(float(r))
        rvecs.append((vals[1] - rhs) / nr)
    cnt["ladders"] = 1
    sample = {"kind": case["kind"], "walkers": case["wt"], "residuals": resid, "dts": dts, "nodes": [n_lo ** nf, n_hi ** nf]}
    events.append(judge("average/residual-at-smallest-dt", resid[-1], 1e-3, key + "/residual-small"))
    ok, info = quad.second_order_verdict(dts, rvecs, 1.0)
    ratios = info["ratios"]
    if ok is not None:
        events.append(ev("average/residual-is-second-order-in-dt", ok, float(3.0 / min(ratios)), 1.0, key + "/order", **info))
    sample["ratios"] = ratios
    return {"events": events, "nontrivial": bool(ratios), "sample": sample, "counters": cnt}


def run_window(case):
    rng = np.random.default_rng(case["s"] + 5)
    norb = case["norb"]
    F = fockref.get(norb)
    nf = case["nchol"]
    dt = 0.01
    events = []
    key = "C04/window/%s/%s" % (case["wt"], case["kind"])
    nodes, wq = quad.tensor_nodes(6, nf)
    K = nodes.shape[0]
    S = _system(case, rng, dt, K)
    wu, wd, phi = _walker(case, rng, S)
    taken = set()
    # (1) huge positive / negative E_shift: |I| above 100 / below 1e-3 -> weight exactly 0
    for name, eshift in (("above", 700.0), ("below", -900.0), ("inside", 0.3)):
        res = _propagate_nodes(case, S, wu, wd, nodes, eshift)
        fac = _weight_law(case, S, res, nodes, dt, eshift, wu, wd, phi, None, events, key + "/" + name, F)
        if name in ("above", "below"):
            # the window applies to the projected factor |I| cos(theta), not to |I| alone
            raw = np.abs(res["I"]) * np.cos(res["theta"])
            outside = (raw > 100.0) | (raw < 1e-3) | np.isnan(raw)
            events.append(ev("window/outside-gives-zero", bool(np.all(res["weights"][outside] == 0.0)), key=key + "/" + name + "-zero",
                             absI=[float(np.min(np.abs(res["I"]))), float(np.max(np.abs(res["I"])))], n_outside=int(outside.sum())))
            if outside.any() and np.all(res["weights"][outside] == 0):
                taken.add(name)
    # (2) product cap: factor inside the window but old weight pushes the product above 100
    w0 = np.full(K, 90.0)
    res = _propagate_nodes(case, S, wu, wd, nodes, 60.0, weights0=w0)   # |I| ~ e^{0.6} ~ 1.8
    fac = _weight_law(case, S, res, nodes, dt, 60.0, wu, wd, phi, w0, events, key + "/product-cap", F)
    if np.any((fac > 0) & (fac * 90.0 > 100.0)):
        taken.add("product")
    # (3) small old weights with a factor above 100: the per-step factor window must still kill the walker
    w0 = np.full(K, 1e-3)
    res = _propagate_nodes(case, S, wu, wd, nodes, 700.0, weights0=w0)
    _weight_law(case, S, res, nodes, dt, 700.0, wu, wd, phi, w0, events, key + "/factor-cap-small-weight", F)
    raw = np.abs(res["I"]) * np.cos(res["theta"])
    big = raw > 100.0
    events.append(ev("window/factor-above-100-kills-even-small-weights", bool(np.all(res["weights"][big] == 0.0)), key=key + "/factor-cap-small-weight/zero",
                     n_above=int(big.sum())))
    # (4) injected not-a-number / infinite field in one row: that walker dies, the others are untouched
    res_ok = _propagate_nodes(case, S, wu, wd, nodes, 0.3)
    for bad in (np.nan, np.inf, -np.inf):
        nd = nodes.copy()
        nd[1, 0] = bad
        res = _propagate_nodes(case, S, wu, wd, nd, 0.3)
        others = np.delete(np.arange(K), 1)
        okk = res["weights"][1] == 0.0 and np.all(np.isfinite(res["weights"])) and np.allclose(res["weights"][others], res_ok["weights"][others], rtol=1e-12, atol=0)
        events.append(ev("window/nan-field-kills-only-that-walker", bool(okk), key=key + "/nan-field", bad=str(bad), w1=float(res["weights"][1]) if np.isfinite(res["weights"][1]) else str(res["weights"][1])))
        taken.add("nan")
    return {"events": events, "nontrivial": len(taken) >= 3, "sample": {"branches_taken": sorted(taken)}, "counters": {"window_cases": 1, "hook_reads": 8}}


def run_case(case):
    return run_ladder(case) if case["type"] == "ladder" else run_window(case)
