"""C10 - the CPMC step samples the discrete Hubbard-Stratonovich propagator without bias.

Monitors (all on executions of the real propagators / trial classes):
  pairs     calc_overlap_ratio / update_greens_function for every ordered pair of spin orbitals
            versus the from-scratch overlap ratio and Green's function (UHF and GHF trials)
  fieldsum  exhaustive sum over the 2^n field configurations of one propagate() call, branch
            probabilities *measured* from the running code by multi-section on the uniform
            number, versus exp(dt E_s) e^{-dt K/2} prod_i e^{-dt U n_iu n_id} e^{-dt K/2} |phi>/o
            evaluated in Fock space (K = the lattice one-body matrix itself)
  fastslow  propagator_cpmc == propagator_cpmc_slow, propagator_cpmc_nn == propagator_cpmc_nn_slow
            on walkers, weights, overlaps
"""
import math

import numpy as np

from vlib import fockref, hubbard
from vlib.monitor import ev, judge

ID = "C10"
LEVEL_TEXT = ("The real CPMC propagators are executed on batches that force every one of the 2^n field configurations, with branch probabilities "
              "measured from the running code by multi-section on the uniform number; the weighted sum of propagated walkers is compared in Fock "
              "space with the exact Trotter product of the lattice Hamiltonian; incremental overlap ratios / Green's functions are compared with "
              "from-scratch values for every ordered pair of spin orbitals; fast and slow propagators are compared step by step. Exhaustive over "
              "field configurations and pairs per case, exploration over lattices / fillings / U / dt / trials / walkers.")
LEVEL_NOTE = "trusted: NumPy/SciPy expm, vlib.fockref; n_sites <= 4; branch probabilities resolved to 33^-8"
TECHNIQUE = "runtime monitoring: exhaustive field-configuration sum with probabilities measured from the running code + Fock-space propagator oracle"
RULE = ("cases = lattice (chains 2-4 sites periodic/open, 2x2 grid; optional site disorder) x filling x U x dt x "
        "trial (UHF/GHF; uniform, spin-density-wave, random orthonormal orbitals) x walker (trial + noise) x "
        "propagator; fieldsum cases enumerate all 2^n field configurations with measured branch "
        "probabilities; non-trivial = no constraint/clip active and every measured probability strictly "
        "inside (1e-6, 1-1e-6) for fieldsum, |ratio| > 1e-3 pairs judged for pairs, at least one walker alive "
        "for fastslow; distinct = distinct case descriptor")
MIN_NONTRIVIAL = {"quick": 30, "thorough": 250}
TIMEOUT = {"quick": 900, "thorough": 5400}
ASSUMPTIONS = [
    "n_sites <= 4 (Fock dimension 256) for the exhaustive field sums",
    "intermediates are built through ham.build_propagation_intermediates with chol = the Cholesky "
    "vectors of the interaction, as examples/hubbard.ipynb does",
    "real trial orbitals and real walkers (CPMC keeps walkers real)",
    "branch probabilities are measured by 8 rounds of 32-way multi-section (resolution 33^-8)",
]
REQUIRED_COUNTERS = {"fieldsum_leaves": 8, "pair_evaluations": 50, "fastslow_walkers": 10}


def gen_cases(tier, seed):
    rng = np.random.default_rng([seed, 10])
    cases = []
    q = tier == "quick"
    # ---- pairs
    for trial in ("uhf", "ghf"):
        for (n, ne) in ([(4, (2, 2)), (4, (2, 1)), (3, (1, 1))] if q else
                        [(4, (2, 2)), (4, (2, 1)), (3, (1, 1)), (4, (3, 1)), (5, (2, 2)), (3, (2, 1)), (4, (1, 1)), (5, (3, 2))]):
            for rep in range(2 if q else 6):
                cases.append({"type": "pairs", "trial": trial, "n": n, "nelec": list(ne),
                              "s": int(rng.integers(1 << 30)), "group": "pairs-%s-%d-%s" % (trial, n, ne)})
    # ---- fieldsum
    lat = ["chain2", "chain3", "open3", "grid2x2"] if q else ["chain2", "chain3", "open3", "chain4", "open4", "grid2x2"]
    fill = {"chain2": [(1, 1)], "chain3": [(1, 1), (2, 1)], "open3": [(1, 1), (2, 1)],
            "chain4": [(2, 2), (2, 1), (1, 1), (3, 2)], "open4": [(2, 2), (2, 1)], "grid2x2": [(2, 2), (2, 1), (1, 1)]}
    combos = []
    for l in lat:
        for ne in fill[l]:
            for prop in ("fast", "slow"):
                for trial in ("uhf", "ghf"):
                    combos.append((l, ne, prop, trial))
    for (l, ne, prop, trial) in combos:
        reps = 1 if q else 5
        for rep in range(reps):
            cases.append({
                "type": "fieldsum", "lattice": l, "nelec": list(ne), "prop": prop, "trial": trial,
                "u": float(rng.choice([1.0, 4.0, 8.0])), "dt": float(rng.choice([0.01, 0.05, 0.2])),
                "style": str(rng.choice(["uniform", "afm", "random"])),
                "disorder": float(rng.choice([0.0, 0.5])), "noise": float(rng.choice([0.02, 0.1])),
                "shift": float(rng.normal() * 0.5), "theta": float(rng.uniform(0.2, 1.2)),
                "zeeman": float(rng.choice([0.0, 0.4, 1.0])) if (len(cases) % 2 == 0) else 0.0,
                "s": int(rng.integers(1 << 30)), "group": "fs-%s-%s-%s-%s" % (l, ne, prop, trial), "cost": 6})
            if len(cases) % 3 == 0:
                # strong coupling x coarse time step (dt U up to 9): the discrete transformation is exact for any dt U
                u_s, dt_s = [(8.0, 0.8), (16.0, 0.4), (12.0, 0.75), (4.0, 2.0), (10.0, 0.5)][int(rng.integers(5))]
                cases[-1].update({"u": u_s, "dt": dt_s, "noise": 0.02})
    # ---- fastslow
    for variant in ("onsite", "nn"):
        for trial in ("uhf", "ghf"):
            for (l, ne) in ([("chain4", (2, 2)), ("open4", (2, 1)), ("open3", (1, 1))] if q else
                            [("chain4", (2, 2)), ("grid2x2", (2, 1)), ("chain3", (2, 1)), ("open4", (2, 2)), ("chain4", (3, 1)), ("open3", (1, 1)), ("chain2", (1, 1))]):
                for rep in range(2 if q else 8):
                    cases.append({
                        "type": "fastslow", "variant": variant, "trial": trial, "lattice": l, "nelec": list(ne),
                        "u": float(rng.choice([1.0, 4.0, 8.0])), "u1": float(rng.choice([0.5, 1.0, 2.0])),
                        "dt": float(rng.choice([0.01, 0.05, 0.2])), "noise": float(rng.choice([0.05, 0.3, 1.0])),
                        "style": str(rng.choice(["uniform", "afm", "random"])), "theta": float(rng.uniform(0.2, 1.2)),
                        "zeeman": float(rng.choice([0.0, 0.5])),
                        "s": int(rng.integers(1 << 30)), "group": "fsl-%s-%s-%s-%s" % (variant, trial, l, ne), "cost": 4})
    return cases


# --------------------------------------------------------------------------- helpers
def _setup(case, rng, n_walkers, variant="onsite", prop_kind="fast"):
    import jax.numpy as jnp

    from ad_afqmc import hamiltonian, propagation, wavefunctions

    k = hubbard.lattice_h1(case["lattice"], rng, case.get("disorder", 0.0))
    n = k.shape[0]
    z = case.get("zeeman", 0.0)
    field = np.diag(z * np.array([(-1.0) ** i for i in range(n)]) + (0.3 * z))   # staggered + uniform Zeeman term
    ka, kb = k + field, k - field
    na, nb = case["nelec"]
    u = case["u"]
    pairs = hubbard.neighbor_pairs(k)
    if variant == "nn":
        chol = hubbard.extended_chol(n, u, case["u1"], pairs)
    else:
        chol = hubbard.onsite_chol(n, u)
    a, b = hubbard.trial_orbitals(rng, k, na, nb, case["style"])
    if case["trial"] == "uhf":
        trial = wavefunctions.uhf_cpmc(n, (na, nb))
        wave_data = {"mo_coeff": [jnp.array(a), jnp.array(b)]}
    else:
        trial = wavefunctions.ghf_cpmc(n, (na, nb))
        wave_data = {"mo_coeff": jnp.array(hubbard.ghf_from_uhf(a, b, case["theta"]))}
    wave_data["rdm1"] = jnp.array([a @ a.T, b @ b.T])
    ham_data = {"h0": jnp.array(0.0), "h1": jnp.array([ka, kb]), "chol": jnp.array(chol), "ene0": 0.0,
                "u": u}
    if variant == "nn":
        ham_data["u_1"] = case["u1"]
    dt = case["dt"]
    if variant == "nn":
        cls = propagation.propagator_cpmc_nn if prop_kind == "fast" else propagation.propagator_cpmc_nn_slow
        prop = cls(dt=dt, n_walkers=n_walkers, neighbors=pairs)
    else:
        cls = propagation.propagator_cpmc if prop_kind == "fast" else propagation.propagator_cpmc_slow
        prop = cls(dt=dt, n_walkers=n_walkers)
    ham = hamiltonian.hamiltonian(n)
    ham_data = ham.build_measurement_intermediates(ham_data, trial, wave_data)
    ham_data = ham.build_propagation_intermediates(ham_data, prop, trial, wave_data)
    return dict(k=k, ka=ka, kb=kb, n=n, na=na, nb=nb, a=a, b=b, trial=trial, wave_data=wave_data, ham_data=ham_data,
                prop=prop, ham=ham, pairs=pairs)


def _g_of_u(u):
    from scipy.special import erfinv

    u = np.clip(u, 1e-300, 1 - 1e-16)
    return np.sqrt(2.0) * erfinv(2.0 * u - 1.0)


# --------------------------------------------------------------------------- pairs
def run_pairs(case):
    import jax.numpy as jnp

    from ad_afqmc import wavefunctions

    rng = np.random.default_rng(case["s"])
    n = case["n"]
    na, nb = case["nelec"]
    if case["trial"] == "uhf":
        trial = wavefunctions.uhf_cpmc(n, (na, nb))
        wd = {"mo_coeff": [jnp.array(rng.normal(size=(n, na))), jnp.array(rng.normal(size=(n, nb)))]}
    else:
        trial = wavefunctions.ghf_cpmc(n, (na, nb))
        wd = {"mo_coeff": jnp.array(rng.normal(size=(2 * n, na + nb)))}
    wu, wdn = rng.normal(size=(n, na)), rng.normal(size=(n, nb))
    G = trial.calc_full_green(jnp.array(wu), jnp.array(wdn), wd)
    o = float(trial._calc_overlap(jnp.array(wu), jnp.array(wdn), wd))
    events = []
    worst = {"ratio": 0.0, "green": 0.0}
    judged = skipped = 0
    for si in (0, 1):
        for sj in (0, 1):
            for i in range(n):
                for j in range(n):
                    if si == sj and i == j:
                        continue
                    c = rng.uniform(-0.6, 1.5, size=2)
                    idx = jnp.array([[si, i], [sj, j]])
                    r = float(trial.calc_overlap_ratio(G, idx, jnp.array(c)))
                    w2 = [wu.copy(), wdn.copy()]
                    w2[si][i] *= 1 + c[0]
                    w2[sj][j] *= 1 + c[1]
                    o2 = float(trial._calc_overlap(jnp.array(w2[0]), jnp.array(w2[1]), wd))
                    rel = "same" if si == sj else "opp"
                    key = "C10/pairs/%s/%s-spin" % (case["trial"], rel)
                    e = judge("pairs/ratio", abs(r - o2 / o), 1e-9 * max(1.0, abs(o2 / o)), key + "/ratio",
                              pair=[si, i, sj, j])
                    if not e["ok"]:
                        events.append(e)
                    worst["ratio"] = max(worst["ratio"], e["resid"])
                    if abs(o2 / o) < 1e-3:  # updated walker nearly orthogonal to the trial: ill conditioned
                        skipped += 1
                        continue
                    G2 = np.asarray(trial.calc_full_green(jnp.array(w2[0]), jnp.array(w2[1]), wd))
                    Gu = np.asarray(trial.update_greens_function(G, r, idx, jnp.array(c)))
                    scale = max(1.0, float(np.max(np.abs(G2))))
                    e = judge("pairs/green", float(np.max(np.abs(Gu - G2))), 1e-8 * scale / min(1.0, abs(o2 / o)),
                              key + "/green", pair=[si, i, sj, j])
                    if not e["ok"]:
                        events.append(e)
                    worst["green"] = max(worst["green"], e["resid"])
                    judged += 1
    events.append(ev("pairs/summary", True, max(worst.values()), 1e-8, "C10/pairs/summary", judged=judged))
    return {"events": events, "nontrivial": judged >= 4,
            "sample": {"judged_pairs": judged, "skipped_ill_conditioned": skipped, "worst": worst, "overlap": o},
            "counters": {"pair_evaluations": judged, "pairs_skipped": skipped}}


# --------------------------------------------------------------------------- fieldsum
def run_fieldsum(case):
    import jax.numpy as jnp

    rng = np.random.default_rng(case["s"])
    probe = 32
    k0 = hubbard.lattice_h1(case["lattice"])
    n = k0.shape[0]
    leaves = [tuple((m >> x) & 1 for x in range(n)) for m in range(1 << n)]
    nodes = []  # (prefix tuple) for every internal node: site x = len(prefix)
    for x in range(n):
        for m in range(1 << x):
            nodes.append(tuple((m >> y) & 1 for y in range(x)))
    batch = len(leaves) + len(nodes) * probe
    S = _setup(case, rng, batch, "onsite", case["prop"])
    na, nb = S["na"], S["nb"]
    wu = S["a"] + case["noise"] * rng.normal(size=(n, na))
    wd = S["b"] + case["noise"] * rng.normal(size=(n, nb))
    init = [jnp.array(np.repeat(wu[None], batch, 0) + 0j), jnp.array(np.repeat(wd[None], batch, 0) + 0j)]
    prop, trial, ham_data, wave_data = S["prop"], S["trial"], S["ham_data"], S["wave_data"]
    pd0 = prop.init_prop_data(trial, wave_data, ham_data, init)
    pd0["pop_control_ene_shift"] = jnp.array(case["shift"])
    o_old = float(np.asarray(pd0["overlaps"])[0])
    if abs(o_old) < 1e-6:
        return {"events": [ev("fieldsum/skip", None, key="C10/fieldsum/skip-small-overlap")], "nontrivial": False}
    FORCE = {0: -30.0, 1: 30.0}

    def run(gauss):
        pd = {k2: (list(v) if isinstance(v, list) else v) for k2, v in pd0.items()}
        out = prop.propagate(trial, ham_data, pd, jnp.array(gauss), wave_data)
        return (np.asarray(out["walkers"][0]), np.asarray(out["walkers"][1]), np.asarray(out["weights"]),
                np.asarray(out["overlaps"]))

    lo = np.zeros(len(nodes))
    hi = np.ones(len(nodes))
    leaf_res = None
    rounds = 8
    constraint = False
    for rnd in range(rounds):
        gauss = np.zeros((batch, n))
        for li, f in enumerate(leaves):
            gauss[li] = [FORCE[b] for b in f]
        us = np.zeros((len(nodes), probe))
        for ni, pre in enumerate(nodes):
            x = len(pre)
            us[ni] = lo[ni] + (hi[ni] - lo[ni]) * (np.arange(1, probe + 1) / (probe + 1.0))
            for kk in range(probe):
                row = len(leaves) + ni * probe + kk
                gauss[row, :x] = [FORCE[b] for b in pre]
                gauss[row, x] = _g_of_u(us[ni, kk])
                gauss[row, x + 1:] = FORCE[0]
        W0, W1, wts, ovl = run(gauss)
        if leaf_res is None:
            leaf_res = (W0[: len(leaves)].copy(), W1[: len(leaves)].copy(), wts[: len(leaves)].copy(),
                        ovl[: len(leaves)].copy())
            # a forced configuration that came back as a different leaf means a branch had probability 0
        for ni, pre in enumerate(nodes):
            x = len(pre)
            f0 = pre + (0,) + (0,) * (n - x - 1)
            f1 = pre + (1,) + (0,) * (n - x - 1)
            i0, i1 = leaves.index(f0), leaves.index(f1)
            took0 = np.zeros(probe, dtype=bool)
            for kk in range(probe):
                row = len(leaves) + ni * probe + kk
                d0 = np.max(np.abs(W0[row] - leaf_res[0][i0])) + np.max(np.abs(W1[row] - leaf_res[1][i0])) if nb else np.max(np.abs(W0[row] - leaf_res[0][i0]))
                d1 = np.max(np.abs(W0[row] - leaf_res[0][i1])) + np.max(np.abs(W1[row] - leaf_res[1][i1])) if nb else np.max(np.abs(W0[row] - leaf_res[0][i1]))
                took0[kk] = d0 < d1
            # branch 0 iff u < p: took0 must be a prefix of True
            k_true = int(np.sum(took0))
            if not np.all(took0[:k_true]) or np.any(took0[k_true:]):
                return {"events": [ev("fieldsum/monotone", False, key="C10/fieldsum/branch-not-monotone-in-u",
                                      node=list(pre), took0=took0.tolist())], "nontrivial": False}
            new_lo = us[ni, k_true - 1] if k_true > 0 else lo[ni]
            new_hi = us[ni, k_true] if k_true < probe else hi[ni]
            lo[ni], hi[ni] = new_lo, new_hi
    p0 = (lo + hi) / 2
    width = float(np.max(hi - lo))
    pmap = {pre: p0[ni] for ni, pre in enumerate(nodes)}
    if np.any(p0 < 1e-6) or np.any(p0 > 1 - 1e-6):
        constraint = True
    W0, W1, wts, ovl = leaf_res
    if np.any(wts == 0) or not np.all(np.isfinite(wts)):
        constraint = True
    F = fockref.get(n)
    phi = F.det(wu, wd)
    Kop = F.onebody(S["ka"], S["kb"])
    dt, u = case["dt"], case["u"]
    low = (1 << n) - 1
    dbl = np.array([bin((m & low) & (m >> n)).count("1") for m in range(F.dim)])
    v = F.expm_apply(Kop, phi, dt / 2)
    v = np.exp(-dt * u * dbl) * v
    v = F.expm_apply(Kop, v, dt / 2)
    rhs = math.exp(dt * case["shift"]) * v / o_old
    lhs = np.zeros(F.dim, dtype=complex)
    ptot = 0.0
    for li, f in enumerate(leaves):
        P = 1.0
        for x in range(n):
            p = pmap[f[:x]]
            P *= p if f[x] == 0 else (1 - p)
        ptot += P
        if wts[li] == 0 or ovl[li] == 0:
            continue
        lhs = lhs + P * wts[li] * F.det(W0[li], W1[li]) / ovl[li]
    resid = float(np.linalg.norm(lhs - rhs) / np.linalg.norm(rhs))
    events = []
    key = "C10/fieldsum/%s/%s" % (case["prop"], case["trial"])
    if constraint:
        events.append(ev("fieldsum/constraint-active", None, resid, 1e-9, key + "/constraint-active",
                         pmin=float(p0.min()), pmax=float(p0.max())))
    else:
        events.append(judge("fieldsum/residual", resid, 1e-9, key + "/residual", pmin=float(p0.min()),
                            pmax=float(p0.max()), width=width, dt=dt, u=u))
    if not constraint:
        # the step is homogeneous in the walker: the same determinant with un-normalised columns (absolute overlap down to ~1e-15) takes
        # the same branches with the same weights; walkers scale with the columns, overlaps with their product
        wsc = [2.0e-5, 3.0e-3, 40.0][case["s"] % 3]
        init_s = [jnp.array(np.repeat((wsc * wu)[None], batch, 0) + 0j), jnp.array(np.repeat((wsc * wd)[None], batch, 0) + 0j)]
        pd_s = prop.init_prop_data(trial, wave_data, ham_data, init_s)
        pd_s["pop_control_ene_shift"] = jnp.array(case["shift"])
        gauss_l = np.zeros((batch, n))
        for li, f in enumerate(leaves):
            gauss_l[li] = [FORCE[b] for b in f]
        out_s = prop.propagate(trial, ham_data, {k2: (list(v2) if isinstance(v2, list) else v2) for k2, v2 in pd_s.items()}, jnp.array(gauss_l), wave_data)
        nl = len(leaves)
        w_s = np.asarray(out_s["weights"])[:nl]
        d_w = float(np.max(np.abs(w_s - leaf_res[2]) / np.maximum(np.abs(leaf_res[2]), 1e-300)))
        d_u = float(np.max(np.abs(np.asarray(out_s["walkers"][0])[:nl] / wsc - leaf_res[0])))
        d_o = float(np.max(np.abs(np.asarray(out_s["overlaps"])[:nl] / wsc ** (na + nb) - leaf_res[3]) / np.maximum(np.abs(leaf_res[3]), 1e-300)))
        events.append(judge("fieldsum/scale-invariance-of-the-step", max(d_w, d_u, d_o), 1e-8, key + "/walker-scale", scale=wsc,
                            old_overlap=o_old * wsc ** (na + nb), parts={"weights": d_w, "walkers": d_u, "overlaps": d_o}))
    return {"events": events, "nontrivial": not constraint,
            "sample": {"residual": resid, "probabilities_branch0": [float(x) for x in p0[:8]],
                       "leaf_weights": [float(x) for x in wts[:8]], "bracket_width": width, "old_overlap": o_old},
            "counters": {"fieldsum_leaves": len(leaves), "fieldsum_nodes": len(nodes),
                         "fieldsum_propagate_calls": rounds, "fieldsum_constraint_active": int(constraint)}}


# --------------------------------------------------------------------------- fastslow
def run_fastslow(case):
    import jax.numpy as jnp
    from jax import random

    rng = np.random.default_rng(case["s"])
    nw = 12
    variant = case["variant"]
    Sf = _setup(case, np.random.default_rng(case["s"]), nw, variant, "fast")
    Ss = _setup(case, np.random.default_rng(case["s"]), nw, variant, "slow")
    rng = np.random.default_rng(case["s"] + 1)
    n, na, nb = Sf["n"], Sf["na"], Sf["nb"]
    wu = Sf["a"][None] + case["noise"] * rng.normal(size=(nw, n, na))
    wd = Sf["b"][None] + case["noise"] * rng.normal(size=(nw, n, nb))
    gauss = rng.normal(size=(3, nw, n))
    pds = []
    for S in (Sf, Ss):
        init = [jnp.array(wu + 0j), jnp.array(wd + 0j)]
        pd = S["prop"].init_prop_data(S["trial"], S["wave_data"], S["ham_data"], init)
        pd["key"] = random.PRNGKey(case["s"] % 100000)
        pds.append(pd)
    events = []
    key = "C10/fastslow/%s/%s" % (variant, case["trial"])
    n_alive = n_dead = 0
    worst = {"weights": 0.0, "walkers": 0.0, "overlaps": 0.0}
    sample = {}
    for step in range(3):
        outs = []
        for i, S in enumerate((Sf, Ss)):
            pds[i] = S["prop"].propagate(S["trial"], S["ham_data"], pds[i], jnp.array(gauss[step]), S["wave_data"])
            out = pds[i]
            outs.append((np.asarray(out["walkers"][0]), np.asarray(out["walkers"][1]),
                         np.asarray(out["weights"]), np.asarray(out["overlaps"])))
        f, s_ = outs
        alive_f = np.isfinite(f[2]) & (f[2] > 0)
        alive_s = np.isfinite(s_[2]) & (s_[2] > 0)
        sample["step%d" % step] = {"weights_fast": f[2][:4].tolist(), "weights_slow": s_[2][:4].tolist()}
        if not alive_s.any() and not alive_f.any():
            break  # population extinct in both: nothing left to compare (C09 judges that situation)
        # a walker alive in one propagator and dead / not-a-number in the other is a disagreement
        events.append(judge("fastslow/alive-sets", float(np.sum(alive_f != alive_s)), 0.0, key + "/alive-sets",
                            step=step, fast=f[2].tolist(), slow=s_[2].tolist()))
        alive = alive_f & alive_s
        n_alive += int(alive.sum())
        n_dead += int((~alive).sum())
        if alive.any():
            rw = float(np.max(np.abs(f[2][alive] - s_[2][alive]) / np.maximum(1e-12, np.abs(s_[2][alive]))))
            dw = float(np.max(np.abs(f[0][alive] - s_[0][alive])))
            if nb:
                dw = max(dw, float(np.max(np.abs(f[1][alive] - s_[1][alive]))))
            sc = max(1.0, float(np.max(np.abs(s_[0][alive]))))
            do = float(np.max(np.abs(f[3][alive] - s_[3][alive]) / np.maximum(1e-12, np.abs(s_[3][alive]))))
            worst["weights"] = max(worst["weights"], rw)
            worst["walkers"] = max(worst["walkers"], dw / sc)
            worst["overlaps"] = max(worst["overlaps"], do)
        if not (alive_f == alive_s).all():
            break
    if n_alive:
        events.append(judge("fastslow/weights", worst["weights"], 1e-7, key + "/weights"))
        events.append(judge("fastslow/walkers", worst["walkers"], 1e-8, key + "/walkers"))
        events.append(judge("fastslow/overlaps", worst["overlaps"], 1e-7, key + "/overlaps"))
    return {"events": events, "nontrivial": n_alive > 0, "sample": sample,
            "counters": {"fastslow_walkers": n_alive, "fastslow_dead": n_dead}}


def run_case(case):
    return {"pairs": run_pairs, "fieldsum": run_fieldsum, "fastslow": run_fastslow}[case["type"]](case)
