"""C05 - the free-projection step averages to exp(-dt (H - ene0)) with exact norm bookkeeping."""
import math

import numpy as np
import scipy.linalg

from vlib import afqmc, fockref, quad, trials
from vlib.monitor import ev, judge

ID = "C05"
LEVEL_TEXT = ("propagate_free is executed for 1..k consecutive steps; the returned (walkers, norms, overlaps) are compared in Fock space with an "
              "independent NumPy re-implementation of the documented step operator (exact half steps, Taylor series of the stated order, scalar "
              "constants), the truncated exponential with scipy's expm inside its Taylor remainder, and the exact quadrature average of norm x "
              "walker with exp(-dt (H - ene0)) over a dt ladder. Held = on all generated cases.")
LEVEL_NOTE = "trusted: NumPy/SciPy expm, vlib.fockref, Gauss-Hermite quadrature (n vs n+4 nodes); norb = 3"
TECHNIQUE = "runtime monitoring: sequential reference model of the step + exact quadrature average + Fock-space propagator oracle"
RULE = ("cases = (n_up,n_dn) with both spins present x 1-3 Cholesky matrices x rdm1 for the shift (trial's or random) x ene0 x n_exp_terms in "
        "{4,6,10} x number of consecutive steps 1..4 x trial kind; non-trivial = fields not all zero and walkers non-orthonormal before QR")
MIN_NONTRIVIAL = {"quick": 15, "thorough": 100}
TIMEOUT = {"quick": 2400, "thorough": 10800}
ASSUMPTIONS = ["unrestricted propagator (the only one defining propagate_free)", "n_dn >= 1 (per-spin constants divide by nelec[s])", "dt <= 0.02 for the ladder"]
REQUIRED_COUNTERS = {"bookkeeping_steps": 30, "taylor": 10, "ladders": 4, "driver_trajectories": 6, "driver_printed_means": 1}


def gen_cases(tier, seed):
    rng = np.random.default_rng([seed, 5])
    q = tier == "quick"
    cases = []
    for kind in (["uhf", "noci"] if q else ["uhf", "noci", "ghf", "ucisd", "multislater"]):
        for ne in ([(2, 1), (1, 1), (2, 2)] if q else [(2, 1), (1, 1), (2, 2), (3, 1), (3, 2)]):
            for rep in range(2 if q else 6):
                cases.append({"type": "book", "kind": kind, "norb": 4, "nelec": list(ne), "nchol": int(rng.integers(1, 4)), "nexp": int(rng.choice([4, 6, 10])),
                              "steps": int(rng.integers(1, 5)), "rdm1": str(rng.choice(["trial", "random"])), "ene0": float(rng.normal()),
                              "dt": float(rng.choice([0.005, 0.02, 0.1])), "nw": int(rng.choice([2, 4, 6])), "s": int(rng.integers(1 << 30)),
                              "group": "book-%s-%s-%d" % (kind, ne, rep), "cost": 5})
    for rep in range(12 if q else 80):
        cases.append({"type": "taylor", "norb": 4, "nelec": [2, int(rng.choice([1, 2]))], "nchol": int(rng.integers(1, 4)), "nexp": int(rng.choice([4, 6, 8, 10, 12])),
                      "anorm": float(rng.choice([0.3, 1.0, 2.0])), "s": int(rng.integers(1 << 30)), "group": "tay-%d" % (rep % 10), "cost": 3})
    for kind in (["uhf", "noci"] if q else ["uhf", "noci", "ghf", "ucisd"]):
        for rep in range(2 if q else 6):
            cases.append({"type": "sampler", "kind": kind, "norb": 4, "nelec": [2, int(rng.choice([1, 2]))], "nchol": int(rng.integers(1, 4)),
                          "nexp": int(rng.choice([6, 10])), "shape": [int(rng.integers(1, 4)), int(rng.integers(2, 4))], "rdm1": str(rng.choice(["trial", "random"])),
                          "ene0": float(rng.normal()), "dt": float(rng.choice([0.01, 0.05])), "nw": 4, "s": int(rng.integers(1 << 30)),
                          "group": "smp-%s-%d" % (kind, rep), "cost": 12})
    for rep in range(2 if q else 8):
        cases.append({"type": "driver", "kind": "uhf" if rep % 2 == 0 else "noci", "norb": 4, "nelec": [2, int(rng.choice([1, 2]))], "nchol": int(rng.integers(1, 4)),
                      "nexp": 6, "shape": [int(rng.integers(1, 3)), int(rng.integers(2, 4))], "ntraj": int(rng.integers(3, 6)), "rdm1": "trial",
                      "ene0": float(rng.normal()), "dt": 0.02, "nw": 4, "seed": int(rng.integers(0, 1000)), "s": int(rng.integers(1 << 30)),
                      "group": "drv-%d" % rep, "cost": 14})
    for ne in ([(2, 1), (1, 1)] if q else [(2, 1), (1, 1), (2, 2), (1, 1)]):
        for rep in range(2 if q else 6):
            nchol = int(rng.choice([1, 2]))
            cases.append({"type": "ladder", "kind": "uhf", "norb": 3, "nelec": list(ne), "nchol": nchol, "nexp": int(rng.choice([4, 6, 10])),
                          "kstep": int(rng.integers(1, 4)), "rdm1": str(rng.choice(["trial", "random"])), "ene0": float(rng.normal()),
                          "s": int(rng.integers(1 << 30)), "group": "lad-%s-%d-%d" % (ne, nchol, rep), "cost": 15 * 3 ** nchol})
    return cases


def step_model(S, dt, nexp, ene0, x, wu, wd):
    """independent re-implementation of one free-projection step on an (unnormalised) walker"""
    norb = S["norb"]
    na, nb = S["nelec"]
    h1 = np.asarray(S["h1"])
    chol = np.asarray(S["chol"]).reshape(-1, norb, norb)
    rdm = np.asarray(S["wave_data"]["rdm1"])
    m = np.array([np.sum(c * (rdm[0] + rdm[1])) for c in chol])
    v0 = 0.5 * sum(c @ c.T for c in chol)
    h1mod = [h1[s] - v0 + sum(m[g] * chol[g] for g in range(len(chol))) for s in range(2)]
    eK = [scipy.linalg.expm(-dt * h / 2) for h in h1mod]
    A = 1j * math.sqrt(dt) * sum(x[g] * chol[g] for g in range(len(chol)))
    T = np.eye(norb, dtype=complex)
    term = np.eye(norb, dtype=complex)
    for n in range(1, nexp):
        term = term @ A / n
        T = T + term
    scal = np.exp(-1j * math.sqrt(dt) * np.dot(x, m) + dt * (ene0 - S["h0"] + np.sum(m ** 2) / 2))
    # split the scalar over the orbitals of both spins (any split gives the same many-body state)
    nu = eK[0] @ T @ eK[0] @ wu
    nd = eK[1] @ T @ eK[1] @ wd
    return nu, nd, scal, A


def run_book(case):
    import jax.numpy as jnp

    rng = np.random.default_rng(case["s"])
    norb = case["norb"]
    na, nb = case["nelec"]
    nw, dt = case["nw"], case["dt"]
    F = fockref.get(norb)
    S = afqmc.make_system(case["kind"], norb, (na, nb), rng, walker_type="uhf", dt=dt, n_walkers=nw, nchol=case["nchol"], n_exp_terms=case["nexp"],
                          rdm1=case["rdm1"], ene0=case["ene0"], n_batch=int(rng.choice([1, 2])) if nw % 2 == 0 else 1,
                          trial_opts={"ms_ndets": 6} if case["kind"] == "multislater" else None, chol_scale=0.6)
    prop, trial, hd, wdat = S["prop"], S["trial"], S["ham_data"], S["wave_data"]
    psi = S["t"]["psi"]
    events = []
    # history on ONE ham_data dict (as a driver that refreshes its intermediates does): intermediates first built for another mean-field
    # density / reference energy / constant, then rebuilt for the present ones, must equal a fresh build - and it is the REBUILT dict
    # that the steps below use
    hd_dirty = {k_: hd[k_] for k_ in ("h0", "h1", "chol", "ene0") if k_ in hd}   # raw entries only: the first build below fills in the rest
    wd_other = dict(wdat)
    wd_other["rdm1"] = wdat["rdm1"] * 0.5 + 0.1 * jnp.eye(norb)[None]
    hd_dirty["ene0"] = case["ene0"] + 1.7
    hd_dirty["h0"] = hd["h0"] - 0.9
    hd_dirty = S["ham"].build_measurement_intermediates(hd_dirty, trial, wd_other)
    hd_dirty = S["ham"].build_propagation_intermediates(hd_dirty, prop, trial, wd_other)
    hd_dirty["ene0"], hd_dirty["h0"] = hd["ene0"], hd["h0"]
    hd_dirty = S["ham"].build_measurement_intermediates(hd_dirty, trial, wdat)
    hd_dirty = S["ham"].build_propagation_intermediates(hd_dirty, prop, trial, wdat)
    worst_k, worst_d = None, 0.0
    for k_ in hd:
        try:
            a_, b_ = np.asarray(hd[k_]), np.asarray(hd_dirty[k_])
        except Exception:
            continue
        if a_.dtype.kind in "fc" and a_.shape == b_.shape:
            d_ = float(np.max(np.abs(a_ - b_))) if a_.size else 0.0
            if d_ > worst_d:
                worst_k, worst_d = k_, d_
    events.append(judge("rebuild/propagation-intermediates-equal-a-fresh-build", worst_d, 1e-12, "C05/rebuild/intermediates", worst_key=worst_k))
    hd = hd_dirty
    w0 = afqmc.noisy_walkers(rng, S, nw, noise=0.3)
    pd = prop.init_prop_data(trial, wdat, hd, w0)
    U = [np.asarray(w0[0]).copy(), np.asarray(w0[1]).copy()]   # model: unnormalised walkers
    scal = np.ones(nw, dtype=complex)
    key = "C05/book/%s" % case["kind"]
    worst = {"state": 0.0, "ovl": 0.0, "novl": 0.0, "orth": 0.0}
    for step in range(case["steps"]):
        x = rng.normal(size=(nw, case["nchol"]))
        pd = prop.propagate_free(trial, hd, pd, jnp.array(x), wdat)
        Q = afqmc.np_walkers(pd["walkers"])
        norms = np.asarray(pd["norms"])
        ov = np.asarray(pd["overlaps"])
        nov = np.asarray(pd["normed_overlaps"])
        for k in range(nw):
            U[0][k], U[1][k], sc, A = step_model(S, dt, case["nexp"], case["ene0"], x[k], U[0][k], U[1][k])
            scal[k] *= sc
            ref = scal[k] * F.det(U[0][k], U[1][k])
            got = norms[k] * F.det(Q[0][k], Q[1][k])
            nr = np.linalg.norm(ref)
            worst["state"] = max(worst["state"], float(np.linalg.norm(got - ref) / nr))
            worst["ovl"] = max(worst["ovl"], float(abs(ov[k] - np.vdot(psi, ref)) / (np.linalg.norm(psi) * nr)))
            qv = F.det(Q[0][k], Q[1][k])
            worst["novl"] = max(worst["novl"], float(abs(nov[k] - np.vdot(psi, qv)) / np.linalg.norm(psi)))
            worst["orth"] = max(worst["orth"], float(np.max(np.abs(Q[0][k].conj().T @ Q[0][k] - np.eye(na)))),
                                float(np.max(np.abs(Q[1][k].conj().T @ Q[1][k] - np.eye(nb)))))
    tol = 1e-9 * case["steps"]
    events.append(judge("book/norm-times-walker-is-unnormalised-product", worst["state"], tol, key + "/state", steps=case["steps"], nexp=case["nexp"], dt=dt))
    events.append(judge("book/stored-overlap-is-overlap-of-unnormalised-state", worst["ovl"], tol, key + "/overlaps"))
    events.append(judge("book/normed-overlap", worst["novl"], tol, key + "/normed-overlaps"))
    events.append(judge("book/walkers-orthonormal", worst["orth"], 1e-11, key + "/orthonormal"))
    return {"events": events, "nontrivial": True, "sample": {"kind": case["kind"], "steps": case["steps"], "nexp": case["nexp"], "dt": dt, "worst": worst,
                                                            "norms": np.asarray(pd["norms"])[:2].tolist()},
            "counters": {"bookkeeping_steps": case["steps"] * nw}}


def run_taylor(case):
    import jax.numpy as jnp

    rng = np.random.default_rng(case["s"])
    norb = case["norb"]
    na, nb = case["nelec"]
    nw, dt = 4, 0.05
    S = afqmc.make_system("uhf", norb, (na, nb), rng, walker_type="uhf", dt=dt, n_walkers=nw, nchol=case["nchol"], n_exp_terms=case["nexp"],
                          n_batch=2, chol_scale=0.6)
    prop, hd = S["prop"], S["ham_data"]
    chol = np.asarray(S["chol"]).reshape(-1, norb, norb)
    w0 = afqmc.noisy_walkers(rng, S, nw, noise=0.3)
    x = rng.normal(size=(nw, case["nchol"]))
    # scale the fields so that ||i sqrt(dt) x.L|| is the requested size
    for k in range(nw):
        A = math.sqrt(dt) * sum(x[k, g] * chol[g] for g in range(len(chol)))
        x[k] *= case["anorm"] / max(1e-12, np.linalg.norm(A, 2))
    out = prop._apply_trotprop(hd, w0, jnp.array(x))
    out = afqmc.np_walkers(out)
    eK = np.asarray(hd["exp_h1"])
    worst = 0.0
    n = case["nexp"]
    for k in range(nw):
        A = 1j * math.sqrt(dt) * sum(x[k, g] * chol[g] for g in range(len(chol)))
        an = np.linalg.norm(A, 2)
        rem = an ** n / math.factorial(n) * math.exp(an)
        E = scipy.linalg.expm(A)
        for s in range(2):
            ref = eK[s] @ E @ eK[s] @ np.asarray(w0[s])[k]
            bound = np.linalg.norm(eK[s], 2) ** 2 * rem * np.linalg.norm(np.asarray(w0[s])[k], 2)
            d = np.linalg.norm(out[s][k] - ref, 2)
            worst = max(worst, d / (bound + 1e-13))
    e = judge("taylor/truncated-exponential-within-remainder", worst, 1.0, "C05/taylor/nexp>=%d" % (10 if n >= 10 else 0) if n >= 10 else "C05/taylor", nexp=n, anorm=case["anorm"])
    return {"events": [e], "nontrivial": True, "sample": {"nexp": n, "anorm": case["anorm"], "error_over_remainder_bound": worst}, "counters": {"taylor": 1}}


def run_ladder(case):
    import jax.numpy as jnp
    import scipy.sparse as sp

    rng = np.random.default_rng(case["s"] + 3)
    norb = case["norb"]
    na, nb = case["nelec"]
    F = fockref.get(norb)
    nf = case["nchol"]
    n_lo = {1: 14, 2: 10}[nf]
    events = []
    key = "C05/ladder"
    resid = []
    pre_x = np.random.default_rng(case["s"] + 9).normal(size=(case["kstep"] - 1, nf))
    w_init = None
    ham = trials.rand_ham(np.random.default_rng(case["s"] + 11), norb, nf, spin_dep=True, chol_scale=0.6)
    dts = [0.02, 0.01, 0.005, 0.0025]
    rvecs = []
    for dt in dts:
        vals = []
        rhs = None
        for n in (n_lo, n_lo + 4):
            nodes, wq = quad.tensor_nodes(n, nf)
            K = nodes.shape[0]
            S = afqmc.make_system(case["kind"], norb, (na, nb), np.random.default_rng(case["s"]), walker_type="uhf", dt=dt, n_walkers=K, nchol=nf,
                                  n_exp_terms=case["nexp"], rdm1=case["rdm1"], ene0=case["ene0"], ham=ham)
            prop, trial, hd, wdat = S["prop"], S["trial"], S["ham_data"], S["wave_data"]
            if w_init is None:
                w1 = afqmc.noisy_walkers(np.random.default_rng(case["s"] + 1), S, 1, noise=0.3)
                w_init = [np.asarray(w1[0])[0], np.asarray(w1[1])[0]]
            w = [jnp.array(np.repeat(w_init[0][None], K, 0)), jnp.array(np.repeat(w_init[1][None], K, 0))]
            pd = prop.init_prop_data(trial, wdat, hd, w)
            for j in range(case["kstep"] - 1):   # k-1 ordinary steps, identical for every copy
                pd = prop.propagate_free(trial, hd, pd, jnp.array(np.repeat(pre_x[j][None], K, 0)), wdat)
            Qb = afqmc.np_walkers(pd["walkers"])
            before = np.asarray(pd["norms"])[0] * F.det(Qb[0][0], Qb[1][0])
            pd = prop.propagate_free(trial, hd, pd, jnp.array(nodes), wdat)
            Qa = afqmc.np_walkers(pd["walkers"])
            na_ = np.asarray(pd["norms"])
            lhs = np.zeros(F.dim, dtype=complex)
            for k in range(K):
                lhs = lhs + wq[k] * na_[k] * F.det(Qa[0][k], Qa[1][k])
            vals.append(lhs)
            h1 = np.asarray(S["h1"])
            H = F.hamiltonian(S["h0"], h1[0], h1[1], S["chol"])
            rhs = F.expm_apply(H - case["ene0"] * sp.identity(F.dim), before, dt)
        nr = np.linalg.norm(rhs)
        qerr = np.linalg.norm(vals[0] - vals[1]) / nr
        r = np.linalg.norm(vals[1] - rhs) / nr
        if qerr > max(1e-10, 0.02 * r):
            return {"events": [ev("quadrature/not-converged", None, key="C05/quadrature-not-converged", qerr=float(qerr))], "nontrivial": False,
                    "counters": {"quadrature_not_converged": 1}}
        resid.append(float(r))
        rvecs.append((vals[1] - rhs) / nr)
    events.append(judge("average/residual-at-smallest-dt", resid[-1], 1e-3, key + "/residual-small", nexp=case["nexp"]))
    ok, info = quad.second_order_verdict(dts, rvecs, 1.0)
    ratios = info["ratios"]
    if ok is not None:
        events.append(ev("average/residual-is-second-order-in-dt", ok, float(3.0 / min(ratios)), 1.0, key + "/order", nexp=case["nexp"], kstep=case["kstep"], **info))
    return {"events": events, "nontrivial": bool(ratios), "sample": {"residuals": resid, "ratios": ratios, "kstep": case["kstep"], "nexp": case["nexp"]},
            "counters": {"ladders": 1}}


def run_sampler(case):
    """sampler.propagate_free: the trajectory it returns, its block energies and block weights, against the step model driven
    with the reproduced random stream"""
    import jax.numpy as jnp
    from jax import random

    from ad_afqmc import sampling

    rng = np.random.default_rng(case["s"])
    norb = case["norb"]
    na, nb = case["nelec"]
    nw, dt = case["nw"], case["dt"]
    F = fockref.get(norb)
    S = afqmc.make_system(case["kind"], norb, (na, nb), rng, walker_type="uhf", dt=dt, n_walkers=nw, nchol=case["nchol"], n_exp_terms=case["nexp"],
                          rdm1=case["rdm1"], ene0=case["ene0"], chol_scale=0.6)
    prop, trial, hd, wdat, ham = S["prop"], S["trial"], S["ham_data"], S["wave_data"], S["ham"]
    psi = S["t"]["psi"]
    n_steps, n_blocks = case["shape"]
    smp = sampling.sampler(n_prop_steps=n_steps, n_ene_blocks=1, n_sr_blocks=1, n_blocks=n_blocks)
    w0 = afqmc.noisy_walkers(rng, S, nw, noise=0.3)
    pd = prop.init_prop_data(trial, wdat, hd, w0)
    key0 = random.PRNGKey(case["s"] % 65521)
    pd["key"] = key0
    tr, be, bw, key_out = smp.propagate_free(ham, hd, prop, pd, trial, wdat)
    be, bw = np.asarray(be), np.asarray(bw)
    h1 = np.asarray(S["h1"])
    H = F.hamiltonian(S["h0"], h1[0], h1[1], S["chol"])
    U = [np.asarray(w0[0]).copy(), np.asarray(w0[1]).copy()]
    scal = np.ones(nw, dtype=complex)
    key = key0
    worst = {"state": 0.0, "overlap": 0.0, "block_weight": 0.0, "block_energy": 0.0}
    for b in range(n_blocks):
        key, sub = random.split(key)
        fields = np.asarray(random.normal(sub, shape=(n_steps, nw, case["nchol"])))
        for st in range(n_steps):
            for k in range(nw):
                U[0][k], U[1][k], sc, _ = step_model(S, dt, case["nexp"], case["ene0"], fields[st, k], U[0][k], U[1][k])
                scal[k] *= sc
        Qu, Qd = np.asarray(tr["walkers"][0])[b], np.asarray(tr["walkers"][1])[b]
        norms, ov = np.asarray(tr["norms"])[b], np.asarray(tr["overlaps"])[b]
        num = den = 0.0
        for k in range(nw):
            ref = scal[k] * F.det(U[0][k], U[1][k])
            got = norms[k] * F.det(Qu[k], Qd[k])
            nr = np.linalg.norm(ref)
            worst["state"] = max(worst["state"], float(np.linalg.norm(got - ref) / nr))
            o_ref = np.vdot(psi, ref)
            worst["overlap"] = max(worst["overlap"], float(abs(ov[k] - o_ref) / (np.linalg.norm(psi) * nr)))
            el = np.vdot(psi, H @ ref) / o_ref
            num += el * o_ref
            den += o_ref
        worst["block_weight"] = max(worst["block_weight"], float(abs(bw[b] - den) / abs(den)))
        worst["block_energy"] = max(worst["block_energy"], float(abs(be[b] - num / den) / max(1.0, abs(num / den))))
    etol = 2e-4 if case["kind"] in ("ucisd", "cisd") else 1e-8
    ky = "C05/sampler/%s" % case["kind"]
    events = [judge("sampler/trajectory-state", worst["state"], 1e-9 * n_blocks * n_steps, ky + "/state"),
              judge("sampler/stored-overlaps", worst["overlap"], 1e-9 * n_blocks * n_steps, ky + "/overlaps"),
              judge("sampler/block-weight-is-sum-of-overlaps", worst["block_weight"], 1e-8, ky + "/block-weight"),
              judge("sampler/block-energy-is-overlap-weighted-local-energy", worst["block_energy"], etol, ky + "/block-energy"),
              ev("sampler/key-advanced", bool(np.array_equal(np.asarray(key_out), np.asarray(key))), key=ky + "/key")]
    return {"events": events, "nontrivial": True, "sample": {"kind": case["kind"], "shape": case["shape"], "worst": worst, "block_energies": [complex(x) for x in be[:2]]},
            "counters": {"bookkeeping_steps": n_blocks * n_steps * nw, "sampler_blocks": n_blocks}}


def run_driver(case):
    """driver.fp_afqmc (single rank): every trajectory restarts from the initial population with the key the previous trajectory
    returned, starting at PRNGKey(seed + rank); the rows of samples_raw.dat are (first block weight, first block energy) of the
    trajectories, and the printed running mean is the weight-averaged block energy over trajectories.  The reference repeats the
    documented loop with sampler.propagate_free, whose own output run_sampler compares with the Fock-space model."""
    import contextlib
    import io
    import re

    import jax.numpy as jnp
    from jax import random

    from ad_afqmc import config, driver, sampling

    rng = np.random.default_rng(case["s"])
    norb = case["norb"]
    na, nb = case["nelec"]
    nw, dt = case["nw"], case["dt"]
    S = afqmc.make_system(case["kind"], norb, (na, nb), rng, walker_type="uhf", dt=dt, n_walkers=nw, nchol=case["nchol"], n_exp_terms=case["nexp"],
                          rdm1=case["rdm1"], ene0=case["ene0"], chol_scale=0.6)
    prop, trial, ham = S["prop"], S["trial"], S["ham"]
    n_steps, n_blocks = case["shape"]
    ntraj = case["ntraj"]
    smp = sampling.sampler(n_prop_steps=n_steps, n_ene_blocks=ntraj, n_sr_blocks=1, n_blocks=n_blocks)
    w0 = afqmc.noisy_walkers(rng, S, nw, noise=0.3)
    options = {"seed": case["seed"], "save_walkers": False}
    buf = io.StringIO()
    with contextlib.redirect_stdout(buf):
        driver.fp_afqmc(trials.ham_data_of(S["h0"], S["h1"], S["chol"], ene0=case["ene0"]), ham, prop, trial, dict(S["wave_data"]), smp, None, options,
                        config.not_MPI(), init_walkers=[jnp.array(w0[0]), jnp.array(w0[1])])
    raw = np.loadtxt("samples_raw.dat", dtype=complex).reshape(-1, 2)
    # reference loop
    hd, wdat = S["ham_data"], S["wave_data"]
    pd = prop.init_prop_data(trial, wdat, hd, [jnp.array(w0[0]), jnp.array(w0[1])])
    key = random.PRNGKey(case["seed"])
    tot_e = np.zeros(n_blocks, dtype=complex)
    tot_w = np.zeros(n_blocks, dtype=complex)
    rows = []
    for n in range(ntraj):
        pd["key"] = key
        _, be, bw, key = smp.propagate_free(ham, hd, prop, pd, trial, wdat)
        be, bw = np.asarray(be), np.asarray(bw)
        rows.append((bw[0], be[0]))
        tot_w = tot_w + bw
        tot_e = tot_e + bw * (be - tot_e) / tot_w
    rows = np.array(rows)
    ky = "C05/driver/%s" % case["kind"]
    events = [ev("driver/one-row-per-trajectory", raw.shape[0] == ntraj, key=ky + "/rows", rows=int(raw.shape[0]), trajectories=ntraj)]
    if raw.shape[0] == ntraj:
        events.append(judge("driver/raw-weights-are-first-block-weights", float(np.max(np.abs(raw[:, 0] - rows[:, 0]) / np.abs(rows[:, 0]))), 1e-9, ky + "/raw-weights"))
        events.append(judge("driver/raw-energies-are-first-block-energies", float(np.max(np.abs(raw[:, 1] - rows[:, 1]) / np.maximum(1.0, np.abs(rows[:, 1])))), 1e-9, ky + "/raw-energies"))
        events.append(ev("driver/trajectories-use-fresh-fields", len({complex(np.round(r, 12)) for r in rows[:, 0]}) == ntraj, key=ky + "/fresh-fields"))
    # the last printed running mean (printed every max(ntraj // 10, 1) = 1 trajectories here)
    text = buf.getvalue()
    last = [m for m in re.finditer(r"^\s*(\d+): \[(.*?)\]", text, re.S | re.M)]
    printed = None
    if last:
        nums = re.findall(r"([-+]?\d+\.?\d*(?:e[-+]?\d+)?)\s*([-+]\s*\d+\.?\d*(?:e[-+]?\d+)?)j", last[-1].group(2))
        if len(nums) == n_blocks and int(last[-1].group(1)) == ntraj - 1:
            printed = np.array([complex(float(a), float(b.replace(" ", ""))) for a, b in nums])
    if printed is not None:
        # independent definition: sum_t w_t e_t / sum_t w_t per block
        events.append(judge("driver/printed-mean-is-weighted-mean-over-trajectories", float(np.max(np.abs(printed - tot_e) / np.maximum(1.0, np.abs(tot_e)))), 5e-7, ky + "/running-mean"))
    return {"events": events, "nontrivial": raw.shape[0] == ntraj and ntraj >= 2, "sample": {"kind": case["kind"], "trajectories": ntraj, "raw_rows": [[complex(a), complex(b)] for a, b in raw[:2]],
                                                                                        "printed_mean_parsed": printed is not None},
            "counters": {"driver_trajectories": ntraj, "driver_printed_means": int(printed is not None)}}


def run_case(case):
    return {"book": run_book, "taylor": run_taylor, "ladder": run_ladder, "sampler": run_sampler, "driver": run_driver}[case["type"]](case)


def finalize(results, tier, seed):
    """a quadrature that does not converge decides nothing: more than 10 % such ladders (none occur on the pinned tree) => inconclusive"""
    lad = sum(1 for r in results if r["case"].get("type") == "ladder")
    bad = sum((r.get("counters") or {}).get("quadrature_not_converged", 0) for r in results)
    if lad and bad > max(1, 0.1 * lad):
        return [ev("quadrature/too-many-not-converged", None, key="C05/quadrature-not-converged", hard=True, ladders=lad, not_converged=bad)]
    return []
