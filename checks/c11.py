"""C11 - determinant-list trials mean what they say; an exact trial gives zero variance."""
import contextlib
import io
import itertools
import os
import struct

import numpy as np

from vlib import fockref, trials
from vlib.monitor import ev, judge

ID = "C11"
LEVEL_TEXT = ("Determinant lists (random CI vectors, FCI vectors from pyscf through get_fci_state, lists read back from Dice-format binary "
              "files) are turned into multi-Slater trials by the real get_excitations path and compared with sum_i c_i |D_i> in Fock space "
              "under reordering, change of reference and of the excitation cut-off; exact eigenvectors are used as trials and every local "
              "energy and every block energy of complete driver runs is compared with the eigenvalue. Held = on all generated cases.")
LEVEL_NOTE = "trusted: NumPy, vlib.fockref (alpha-string x beta-string convention cross-validated with pyscf FCI), pyscf direct_spin1"
TECHNIQUE = "runtime monitoring: Fock-space reference model + zero-variance oracle on driver output (samples_raw.dat)"
RULE = ("cases = norb 3-4 x sector (open and closed shell) x CI vector (random / exact eigenvector of a random or molecular Hamiltonian) x "
        "list order x reference choice x max_excitation; file cases write random states in the Dice binary format; driver cases run the "
        "complete driver with an exact trial over seeds and walker types; non-trivial = list with >= 3 determinants and a reference different "
        "from the aufbau determinant in at least part of the cases (counted)")
MIN_NONTRIVIAL = {"quick": 20, "thorough": 95}
TIMEOUT = {"quick": 3600, "thorough": 14400}
ASSUMPTIONS = ["finite-difference local energy (eps = 1e-4): tolerance 1e-5 S", "driver gathers block energies in float32: tolerance 2e-5 S",
               "get_fci_state is called with tol = 1e-12 so that the list is the full eigenvector"]
REQUIRED_COUNTERS = {"order_reference_checks": 10, "file_roundtrips": 5, "exact_trial_walkers": 20, "driver_rows": 6, "non_aufbau_references": 3}


def gen_cases(tier, seed):
    rng = np.random.default_rng([seed, 11])
    q = tier == "quick"
    cases = []
    secs = [(3, (2, 1)), (3, (1, 1)), (4, (2, 2)), (4, (2, 1)), (4, (3, 1)), (3, (2, 2))]
    # more beta than alpha electrons (unrestricted walkers): pure-beta excitation ranks then exceed the number of alpha electrons
    for (norb, ne) in secs + [(4, (1, 2)), (4, (1, 3)), (5, (1, 3)), (3, (1, 2))]:
        for rep in range(2 if q else 8):
            cases.append({"type": "meaning", "norb": norb, "nelec": list(ne), "s": int(rng.integers(1 << 30)), "group": "mean-%d-%s" % (norb, ne), "cost": 8})
    for rep in range(8 if q else 60):
        cases.append({"type": "file", "norb": int(rng.integers(2, 7)), "s": int(rng.integers(1 << 30)), "group": "file%d" % (rep % 4)})
    for (norb, ne) in ([(3, (2, 1)), (4, (2, 2)), (3, (1, 1))] if q else secs):
        for src in ("fock", "pyscf"):
            for rep in range(1 if q else 3):
                cases.append({"type": "exact", "norb": norb, "nelec": list(ne), "source": src, "ham": str(rng.choice(["random", "random", "h-chain"])) if norb == 4 and ne == (2, 2) else "random",
                              "s": int(rng.integers(1 << 30)), "group": "ex-%d-%s-%s-%d" % (norb, ne, src, rep), "cost": 15})
    drv = [(3, (2, 1), "uhf"), (3, (1, 1), "rhf"), (4, (2, 2), "uhf")] if q else [(3, (2, 1), "uhf"), (3, (1, 1), "rhf"), (4, (2, 2), "uhf"), (4, (2, 2), "rhf"),
                                                                                (4, (2, 1), "uhf"), (3, (2, 2), "rhf"), (3, (1, 1), "uhf"), (4, (3, 1), "uhf")]
    for (norb, ne, wt) in drv:
        cases.append({"type": "driver", "norb": norb, "nelec": list(ne), "wt": wt, "s": int(rng.integers(1 << 30)), "group": "drv-%d-%s-%s" % (norb, ne, wt), "cost": 60})
    return cases


def is_aufbau(ref, na, nb):
    return all(ref[0][i] == (1 if i < na else 0) for i in range(len(ref[0]))) and all(ref[1][i] == (1 if i < nb else 0) for i in range(len(ref[1])))


def build_trial(state, norb, ne, max_exc=None, **kw):
    from ad_afqmc import wavefunctions as wf

    dets = list(state.keys())
    mexc = max(1, trials.needed_excitation(dets)) if max_exc is None else max_exc
    trial = wf.multislater(norb, tuple(ne), max_excitation=mexc, **kw)
    return trial, trials.multislater_wave_data(state, mexc), mexc


def run_meaning(case):
    import jax.numpy as jnp

    rng = np.random.default_rng(case["s"])
    norb = case["norb"]
    na, nb = case["nelec"]
    F = fockref.get(norb)
    dets = trials.all_dets(norb, na, nb)
    if len(dets) > 14:
        dets = [dets[i] for i in rng.choice(len(dets), size=14, replace=False)]
    # the anti-aufbau determinant is always listed (as a reference it makes every excitation a downward move)
    inv = (tuple(1 if i >= norb - na else 0 for i in range(norb)), tuple(1 if i >= norb - nb else 0 for i in range(norb)))
    if inv not in dets:
        dets[0] = inv
    coeffs = rng.normal(size=len(dets))
    coeffs[dets.index(inv)] = np.sign(coeffs[dets.index(inv)]) * (abs(coeffs[dets.index(inv)]) + 0.3)
    base = {d: float(c) for d, c in zip(dets, coeffs)}
    psi = F.ci_state(base)
    walkers = [trials.rand_walker(rng, norb, na, nb) for _ in range(3)]
    refs = [np.vdot(psi, F.det(wu, wd)) for (wu, wd) in walkers]
    nrm = [np.linalg.norm(psi) * np.linalg.norm(F.det(wu, wd)) for (wu, wd) in walkers]
    events = []
    cnt = {"order_reference_checks": 0, "non_aufbau_references": 0, "skipped_singular_reference": 0}
    key = "C11/meaning"
    for variant in range(5):
        order = rng.permutation(len(dets))
        lst = [dets[i] for i in order]
        if variant == 0:
            lst = [inv] + [d for d in lst if d != inv]
        if abs(base[lst[0]]) < 0.05:
            continue  # the reference coefficient multiplies everything: keep it away from zero
        state = {d: base[d] for d in lst}
        extra = int(rng.integers(0, 3))
        need = max(1, trials.needed_excitation(lst))
        trial, wdat, mexc = build_trial(state, norb, (na, nb), max_exc=need + extra)
        auf = is_aufbau(lst[0], na, nb)
        cnt["non_aufbau_references"] += int(not auf)
        for (wu, wd), ref, n_ in zip(walkers, refs, nrm):
            ra = np.nonzero(np.asarray(lst[0][0]))[0]
            rb = np.nonzero(np.asarray(lst[0][1]))[0]
            cond = max(np.linalg.cond(wu[ra]), np.linalg.cond(wd[rb]))
            if cond > 1e6:
                cnt["skipped_singular_reference"] += 1
                continue
            o = complex(trial._calc_overlap(jnp.array(wu), jnp.array(wd), wdat))
            events.append(judge("meaning/overlap-independent-of-order-reference-cutoff", abs(o - ref) / n_, 1e-11 * (10 + cond),
                                key + "/%s/extra-excitation-%d" % ("aufbau-ref" if auf else "non-aufbau-ref", min(extra, 1)), ref_det=[list(lst[0][0]), list(lst[0][1])],
                                max_excitation=mexc))
            cnt["order_reference_checks"] += 1
        if variant == 1 and need >= 2:
            # history on ONE trial object: used, then its excitation cut-off lowered in place (same wave_data), used again - it must now
            # behave like a freshly constructed trial with that cut-off (trial objects are hashed static arguments of jitted methods)
            from ad_afqmc import wavefunctions as wf_

            k_cut = need - 1
            fresh = wf_.multislater(norb, (na, nb), max_excitation=k_cut)
            trial.max_excitation = k_cut
            worst_m = 0.0
            for (wu, wd), n_ in zip(walkers, nrm):
                o_mut = complex(trial._calc_overlap(jnp.array(wu), jnp.array(wd), wdat))
                o_new = complex(fresh._calc_overlap(jnp.array(wu), jnp.array(wd), wdat))
                worst_m = max(worst_m, abs(o_mut - o_new) / n_)
            events.append(judge("meaning/cut-off-lowered-in-place-equals-fresh-trial", worst_m, 1e-12, key + "/mutated-trial-object", old=mexc, new=k_cut))
            cnt["mutated_trial_objects"] = cnt.get("mutated_trial_objects", 0) + 1
    return {"events": events, "nontrivial": len(dets) >= 3, "sample": {"norb": norb, "nelec": [na, nb], "ndets": len(dets), "non_aufbau_refs": cnt["non_aufbau_references"]},
            "counters": cnt}


def write_dice(fname, state, norb):
    with open(fname, "wb") as f:
        f.write(struct.pack("i", len(state)))
        f.write(struct.pack("i", norb))
        for (da, db), c in state.items():
            f.write(struct.pack("d", c))
            for j in range(norb):
                ch = b"2" if (da[j] and db[j]) else (b"a" if da[j] else (b"b" if db[j] else b"0"))
                f.write(struct.pack("c", ch))


def run_file(case):
    import jax.numpy as jnp

    from ad_afqmc import pyscf_interface

    rng = np.random.default_rng(case["s"])
    norb = case["norb"]
    na = int(rng.integers(1, norb + 1))
    nb = int(rng.integers(0, na + 1))
    dets = trials.all_dets(norb, na, nb)
    k = int(rng.integers(1, min(len(dets), 12) + 1))
    dets = [dets[i] for i in rng.choice(len(dets), size=k, replace=False)]
    state = {d: float(rng.normal()) for d in dets}
    fname = "dets_%d.bin" % case["s"]
    write_dice(fname, state, norb)
    events = []
    n_, got, nall = pyscf_interface.read_dets(fname)
    ok = (n_ == norb and nall == len(state) and list(got.keys()) == list(state.keys()) and all(got[d] == state[d] for d in state))
    events.append(ev("file/round-trip", bool(ok), key="C11/file/round-trip", norb=norb, ndets=len(state)))
    m = int(rng.integers(1, len(state) + 1))
    _, got2, nall2 = pyscf_interface.read_dets(fname, ndets=m)
    events.append(ev("file/partial-read", bool(list(got2.keys()) == list(state.keys())[:m] and nall2 == len(state)), key="C11/file/partial-read", m=m))
    # the file path of get_excitations gives the same wave_data as the in-memory path
    a = pyscf_interface.get_excitations(fname=fname, max_excitation=max(1, trials.needed_excitation(list(state.keys()))))
    b = pyscf_interface.get_excitations(state=state, max_excitation=max(1, trials.needed_excitation(list(state.keys()))))
    same = True
    for x, y in zip(a[:5], b[:5]):
        same = same and set(x.keys()) == set(y.keys()) and all(np.array_equal(np.asarray(x[kk]), np.asarray(y[kk])) for kk in x)
    same = same and np.array_equal(a[5], b[5])
    events.append(ev("file/get_excitations-file-equals-state", bool(same), key="C11/file/get-excitations"))
    os.remove(fname)
    return {"events": events, "nontrivial": len(state) >= 2, "sample": {"norb": norb, "nelec": [na, nb], "ndets": len(state)}, "counters": {"file_roundtrips": 1}}


def _hamiltonian(case, rng):
    norb = case["norb"]
    if case.get("ham") == "h-chain":
        from pyscf import ao2mo, gto, scf

        from ad_afqmc import pyscf_interface

        mol = gto.M(atom="; ".join("H 0 0 %f" % (i * (1.0 + 0.1 * rng.normal())) for i in range(4)), basis="sto-3g", verbose=0)
        mf = scf.RHF(mol).run()
        C = mf.mo_coeff
        h1 = C.T @ mf.get_hcore() @ C
        eri = ao2mo.restore(4, ao2mo.kernel(mol, C), 4)
        L0 = pyscf_interface.modified_cholesky(eri, 1e-10)
        chol = np.zeros((L0.shape[0], 4, 4))
        tri = np.tril_indices(4)
        for g in range(L0.shape[0]):
            chol[g][tri] = L0[g]
            chol[g] = chol[g] + chol[g].T - np.diag(np.diag(chol[g]))
        return float(mol.energy_nuc()), np.array([h1, h1]), chol.reshape(len(chol), -1)
    return trials.rand_ham(rng, norb, 3, spin_dep=False, chol_scale=0.5)


def exact_state(case, rng, source):
    """exact ground state as {det: coeff}; returns (state, eigenvalue, (h0, h1, chol))"""
    norb = case["norb"]
    na, nb = case["nelec"]
    h0, h1, chol = _hamiltonian(case, rng)
    F = fockref.get(norb)
    H = F.hamiltonian(h0, h1[0], h1[1], chol)
    w, u, idx = F.eig_sector(H, na, nb)
    if source == "fock":
        v = u[:, 0]
        state = {}
        for amp, m in zip(v, idx):
            da = tuple((m >> i) & 1 for i in range(norb))
            db = tuple((m >> (norb + i)) & 1 for i in range(norb))
            state[(da, db)] = float(np.real(amp))
        # largest coefficient first (as a CI code would order it), rest shuffled
        items = sorted(state.items(), key=lambda kv: -abs(kv[1]))
        head, rest = items[:1], items[1:]
        perm = rng.permutation(len(rest))
        state = dict(head + [rest[i] for i in perm])
        return state, float(w[0]), (h0, h1, chol)
    from pyscf import fci

    from ad_afqmc import pyscf_interface

    cm = np.asarray(chol).reshape(-1, norb, norb)
    eri = np.einsum("gpq,grs->pqrs", cm, cm)
    solver = fci.direct_spin1.FCI()
    solver.conv_tol = 1e-13
    e, c = solver.kernel(h1[0], eri, norb, (na, nb), ecore=h0)
    solver.ci, solver.norb, solver.nelec = c, norb, (na, nb)
    state = pyscf_interface.get_fci_state(solver, tol=1e-12)
    return state, float(e), (h0, h1, chol)


def run_exact(case):
    import jax.numpy as jnp

    from vlib import measure

    rng = np.random.default_rng(case["s"])
    norb = case["norb"]
    na, nb = case["nelec"]
    state, e0, (h0, h1, chol) = exact_state(case, rng, case["source"])
    F = fockref.get(norb)
    events = []
    key = "C11/exact/%s" % case["source"]
    psi = F.ci_state(state)
    H = F.hamiltonian(h0, h1[0], h1[1], chol)
    res = np.linalg.norm(H @ psi - e0 * psi) / np.linalg.norm(psi)
    events.append(judge("exact/list-is-the-eigenvector", float(res), 1e-7, key + "/state-is-eigenvector", ndets=len(state)))
    trial, wdat, mexc = build_trial(state, norb, (na, nb))
    t = {"trial": trial, "wave_data": wdat, "norb": norb}
    hd = measure.intermediates(t, h0, h1, chol)
    S = measure.ham_scale(h0, h1, chol)
    ref0 = list(state.keys())[0]
    auf = is_aufbau(ref0, na, nb)
    n = 0
    for k in range(6):
        wu, wd = trials.rand_walker(rng, norb, na, nb)
        ra, rb = np.nonzero(np.asarray(ref0[0]))[0], np.nonzero(np.asarray(ref0[1]))[0]
        phi = F.det(wu, wd)
        rel = abs(np.vdot(psi, phi)) / (np.linalg.norm(psi) * np.linalg.norm(phi))
        if max(np.linalg.cond(wu[ra]), np.linalg.cond(wd[rb])) > 1e3 or rel < 0.05:
            continue
        e = complex(trial._calc_energy(jnp.array(wu), jnp.array(wd), hd, wdat))
        events.append(judge("exact/local-energy-equals-eigenvalue", abs(e - e0), 1e-5 * S / rel, key + "/local-energy/%s" % ("aufbau-ref" if auf else "non-aufbau-ref"),
                            e=e, eigenvalue=e0, ref_det=[list(ref0[0]), list(ref0[1])]))
        n += 1
        if na == nb:
            e = complex(trial._calc_energy_restricted(jnp.array(wu), hd, wdat))
            phir = F.det(wu, wu)
            relr = abs(np.vdot(psi, phir)) / (np.linalg.norm(psi) * np.linalg.norm(phir))
            if relr >= 0.05 and np.linalg.cond(wu[rb]) < 1e3:
                events.append(judge("exact/local-energy-equals-eigenvalue-restricted", abs(e - e0), 1e-5 * S / relr, key + "/local-energy-restricted", e=e, eigenvalue=e0))
                n += 1
    return {"events": events, "nontrivial": len(state) >= 3, "sample": {"source": case["source"], "ndets": len(state), "eigenvalue": e0, "reference": [list(ref0[0]), list(ref0[1])],
                                                                          "aufbau": auf}, "counters": {"exact_trial_walkers": n, "non_aufbau_references": int(not auf)}}


def run_driver(case):
    import jax.numpy as jnp

    from ad_afqmc import config, driver, hamiltonian, propagation, sampling
    from vlib import measure

    rng = np.random.default_rng(case["s"])
    norb = case["norb"]
    na, nb = case["nelec"]
    wt = case["wt"]
    state, e0, (h0, h1, chol) = exact_state(case, rng, "pyscf" if case["s"] % 2 else "fock")
    trial, wdat, mexc = build_trial(state, norb, (na, nb))
    nw, dt = 6, 0.01
    prop = (propagation.propagator_restricted if wt == "rhf" else propagation.propagator_unrestricted)(dt=dt, n_walkers=nw)
    ham = hamiltonian.hamiltonian(norb)
    hd = trials.ham_data_of(h0, h1, chol)
    nblocks = 4
    smp = sampling.sampler(n_prop_steps=3, n_ene_blocks=1, n_sr_blocks=2, n_blocks=nblocks)
    options = {"dt": dt, "n_walkers": nw, "n_prop_steps": 3, "n_ene_blocks": 1, "n_sr_blocks": 2, "n_blocks": nblocks, "n_ene_blocks_eql": 1, "n_sr_blocks_eql": 1,
               "n_eql": 1, "seed": case["s"] % 65521, "ad_mode": None, "orbital_rotation": True, "do_sr": True, "walker_type": wt, "symmetry": False,
               "save_walkers": False, "trial": None, "ene0": 0.0, "free_projection": False, "n_batch": 1}
    S = measure.ham_scale(h0, h1, chol)
    buf = io.StringIO()
    events = []
    key = "C11/driver/%s" % wt
    ref0 = list(state.keys())[0]
    try:
        with contextlib.redirect_stdout(buf):
            e, err = driver.afqmc(hd, ham, prop, trial, dict(wdat), smp, None, options, config.not_MPI())
    except ValueError as exc:
        if wt == "rhf" and "good trial overlap" in str(exc) and tuple(ref0[0]) != tuple(ref0[1]):
            # restricted initial walkers cannot be built for a reference with different alpha / beta strings: explicit, legitimate refusal
            events.append(ev("driver/initial-walkers-refused", None, key="C11/driver/skip-init-refused", ref_det=[list(ref0[0]), list(ref0[1])]))
            return {"events": events, "nontrivial": False, "counters": {"driver_rows": 0}}
        events.append(ev("driver/completed", False, key=key + "/exception", exc=repr(exc)[:400], ref_det=[list(ref0[0]), list(ref0[1])]))
        return {"events": events, "nontrivial": True, "counters": {"driver_rows": 0}}
    except Exception as exc:
        events.append(ev("driver/completed", False, key=key + "/exception", exc=repr(exc)[:400], ref_det=[list(ref0[0]), list(ref0[1])]))
        return {"events": events, "nontrivial": True, "counters": {"driver_rows": 0}}
    rows = np.loadtxt("samples_raw.dat").reshape(-1, 3)
    d = float(np.max(np.abs(rows[:, 1] - e0)))
    events.append(judge("driver/every-block-energy-equals-eigenvalue", d, 2e-5 * max(1.0, S), key + "/block-energies", eigenvalue=e0, blocks=rows[:, 1].tolist(),
                        ref_det=[list(ref0[0]), list(ref0[1])]))
    events.append(judge("driver/returned-energy-equals-eigenvalue", abs(float(e) - e0), 2e-5 * max(1.0, S), key + "/returned-energy"))
    events.append(ev("driver/zero-variance", bool(err is None or err <= 2e-5 * max(1.0, S)), key=key + "/error-bar", err=err))
    return {"events": events, "nontrivial": True, "sample": {"wt": wt, "eigenvalue": e0, "block_energies": rows[:, 1].tolist(), "returned": float(e)},
            "counters": {"driver_rows": int(rows.shape[0]), "non_aufbau_references": int(not is_aufbau(ref0, na, nb))}}


def run_case(case):
    return {"meaning": run_meaning, "file": run_file, "exact": run_exact, "driver": run_driver}[case["type"]](case)
