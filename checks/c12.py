"""C12 - all sampler entry points compute the same, correct block estimator."""
import json
import os
import subprocess
import sys

import numpy as np

from vlib import afqmc, trials
from vlib.monitor import ev, judge

ID = "C12"
LEVEL_TEXT = ("Every sampler entry point is executed over the option matrix; energies of entry points that must agree are compared, the "
              "single-block estimator is recomputed from the returned (or replayed pre-reconfiguration) population with an independent "
              "implementation of the capping rule on populations engineered so that capping triggers (real and imaginary deviations), and "
              "bit-reproducibility / batch independence are observed within and across processes. Held = on all generated configurations.")
LEVEL_NOTE = "trusted: NumPy, jax.random stream semantics; AD entry points are compared at a converged trial (trial.optimize is then a fixed point)"
TECHNIQUE = "runtime monitoring: differential comparison of entry points + independent estimator recomputation on returned populations"
RULE = ("cases = entry-point pairs that must agree x walker type x sampler shape x seed; estimator cases = single energy block with walkers "
        "selected so that |Re E_L - e_est| > sqrt(2/dt) for some and |Re E_L - e_est| <= sqrt(2/dt) < |E_L - e_est| for others; reproducibility "
        "cases run twice in-process and once in a fresh process; batch cases use every n_batch dividing n_walkers; non-trivial = weights not "
        "all equal at the end or capping triggered")
MIN_NONTRIVIAL = {"quick": 10, "thorough": 45}
TIMEOUT = {"quick": 3000, "thorough": 12000}
ASSUMPTIONS = ["converged SCF trial for comparisons that involve orbital relaxation", "single-process runs (no MPI)"]
REQUIRED_COUNTERS = {"entry_calls": 20, "estimator_checks": 4, "capped_real": 1, "capped_imag": 1, "reordering_reconfigurations": 4}
ENTRIES = ("plain", "ad", "ad_nosr", "ad_norot", "ad_nosr_norot")


def gen_cases(tier, seed):
    rng = np.random.default_rng([seed, 12])
    q = tier == "quick"
    cases = []
    pairs = [("plain", "ad"), ("ad", "ad_norot"), ("ad_nosr", "ad_nosr_norot"), ("plain", "ad_nosr")]
    for wt in ("rhf", "uhf"):
        for (a, b) in pairs:
            for rep in range(1 if q else 3):
                nsr = 1 if (a, b) == ("plain", "ad_nosr") else int(rng.integers(1, 3))
                cases.append({"type": "equal", "a": a, "b": b, "wt": wt, "shape": [int(rng.integers(2, 5)), int(rng.integers(1, 3)), nsr],
                              "dt": float(rng.choice([0.01, 0.05])), "n_batch": int(rng.choice([1, 2])), "s": int(rng.integers(1 << 30)),
                              "group": "eq-%s-%s-%s-%d" % (a, b, wt, rep), "cost": 30})
    for wt in ("rhf", "uhf"):
        for entry in (("ad_nosr", "plain") if q else ("ad_nosr", "ad_nosr_norot", "plain", "ad", "ad_norot")):
            for rep in range(1 if q else 2):
                cases.append({"type": "estimator", "entry": entry, "wt": wt, "dt": float(rng.choice([0.3, 0.5])), "s": int(rng.integers(1 << 30)),
                              "group": "est-%s-%s-%d" % (entry, wt, rep), "cost": 30})
    for wt in ("rhf", "uhf"):
        for rep in range(1 if q else 4):
            cases.append({"type": "replay", "wt": wt, "shape": [int(rng.integers(2, 4)), int(rng.integers(2, 4)), int(rng.integers(2, 4))], "dt": 0.05,
                          "s": int(rng.integers(1 << 30)), "group": "rpl-%s-%d" % (wt, rep), "cost": 25})
    # the real driver's choice of entry point for (ad_mode, orbital_rotation, do_sr) against a harness loop that calls the
    # documented entry point directly with the same seed and the driver's between-block operations
    for (rot, do_sr) in ((True, True), (True, False), (False, True), (False, False)):
        for wt in (("rhf",) if q else ("rhf", "uhf")):
            cases.append({"type": "driver", "rot": rot, "do_sr": do_sr, "wt": wt, "ad_mode": "forward" if (rot ^ do_sr) or q else str(rng.choice(["forward", "reverse"])),
                          "s": int(rng.integers(1 << 30)), "group": "drv-%s-%s-%s" % (rot, do_sr, wt), "cost": 70})
    # ... and the remaining modes: no AD (plain sampler), reverse mode, and the 2-RDM mode (propagate_phaseless_ad_1 on the ERI tensor)
    for (mode, wt) in ((None, "uhf"), ("reverse", "uhf"), ("2rdm", "rhf")) if q else ((None, "uhf"), (None, "rhf"), ("reverse", "uhf"), ("reverse", "rhf"), ("2rdm", "rhf"), ("2rdm", "uhf")):
        cases.append({"type": "driver", "rot": True, "do_sr": True, "wt": wt, "ad_mode": mode, "s": int(rng.integers(1 << 30)),
                      "group": "drv-%s-%s" % (mode, wt), "cost": 70})
    # reproducibility "for a given seed" through the documented option handling (mpi_jax._prep_afqmc), including the seed value 0
    # "asked for the same block structure returns the same energy" also when the block structure of a sampler OBJECT is changed between
    # calls (samplers are plain mutable dataclasses hashed by their fields; they are static arguments of the jitted entry points)
    for rep in range(2 if q else 6):
        cases.append({"type": "mutate", "wt": "uhf" if rep % 2 == 0 else "rhf", "entry": ["plain", "ad_nosr_norot", "ad", "ad_norot", "ad_nosr"][rep % 5],
                      "s": int(rng.integers(1 << 30)), "group": "mut-%d" % rep, "cost": 30})
    for rep in range(1 if q else 4):
        cases.append({"type": "seedopt", "wt": "uhf" if rep % 2 == 0 else "rhf", "s": int(rng.integers(1 << 30)), "group": "seedopt-%d" % rep, "cost": 40})
    for wt in (("uhf",) if q else ("rhf", "uhf")):
        cases.append({"type": "repro", "wt": wt, "entry": "plain", "s": int(rng.integers(1 << 30)), "group": "rep-%s" % wt, "cost": 40})
        cases.append({"type": "batch", "wt": wt, "entry": str(rng.choice(["plain", "ad_nosr"])), "s": int(rng.integers(1 << 30)), "group": "bat-%s" % wt, "cost": 50})
    if not q:
        for entry in ENTRIES + ("ad_1",):
            for (kind, wt) in (("noci", "uhf"), ("cisd", "rhf"), ("ucisd", "uhf"), ("uhf", "rhf"), ("ghf", "uhf")):
                cases.append({"type": "callable", "entry": entry, "kind": kind, "wt": wt, "s": int(rng.integers(1 << 30)),
                              "group": "call-%s-%s" % (entry, kind), "cost": 30})
    else:
        for entry, kind, wt in (("ad", "noci", "uhf"), ("ad_nosr_norot", "cisd", "rhf"), ("ad_1", "uhf", "uhf")):
            cases.append({"type": "callable", "entry": entry, "kind": kind, "wt": wt, "s": int(rng.integers(1 << 30)), "group": "call-%s-%s" % (entry, kind), "cost": 30})
    return cases


def build(wt, rng, nw, dt, n_batch=1):
    import jax.numpy as jnp
    from jax import random

    from ad_afqmc import hamiltonian, propagation, wavefunctions
    from checks.c08 import _converged_system

    kind, ne, ham_t, Cs = _converged_system(wt, rng, nw, dt, None)
    norb = 4
    h0, h1, chol = ham_t
    if kind == "rhf":
        trial = wavefunctions.rhf(norb, ne, n_batch=n_batch)
        wd = {"mo_coeff": jnp.array(Cs)}
        prop = propagation.propagator_restricted(dt=dt, n_walkers=nw, n_batch=n_batch)
    else:
        trial = wavefunctions.uhf(norb, ne, n_batch=n_batch)
        wd = {"mo_coeff": [jnp.array(Cs[0]), jnp.array(Cs[1])]}
        prop = propagation.propagator_unrestricted(dt=dt, n_walkers=nw, n_batch=n_batch)
    wd["rdm1"] = trial.get_rdm1(wd)
    ham = hamiltonian.hamiltonian(norb)
    hd = trials.ham_data_of(h0, h1, chol)
    hd = ham.build_measurement_intermediates(hd, trial, wd)
    hd = ham.build_propagation_intermediates(hd, prop, trial, wd)
    return {"ham": ham, "ham_data": hd, "prop": prop, "trial": trial, "wave_data": wd, "norb": norb, "nelec": ne, "Cs": Cs}


def call_entry(entry, smp, S, pd):
    import jax.numpy as jnp

    norb = S["norb"]
    obs = jnp.zeros((2, norb, norb))
    args = (S["ham"], S["ham_data"], 0.0, obs, S["prop"], pd, S["trial"], S["wave_data"])
    if entry == "plain":
        return smp.propagate_phaseless(S["ham"], S["ham_data"], S["prop"], pd, S["trial"], S["wave_data"])
    if entry == "ad_1":
        chol = np.asarray(S["ham_data"]["chol"])
        eri = jnp.array(np.einsum("gj,gl->jl", chol, chol).reshape(norb, norb, norb, norb))
        return smp.propagate_phaseless_ad_1(S["ham"], S["ham_data"], 1.0, eri, S["prop"], pd, S["trial"], S["wave_data"])
    fn = {"ad": smp.propagate_phaseless_ad, "ad_nosr": smp.propagate_phaseless_ad_nosr, "ad_norot": smp.propagate_phaseless_ad_norot,
          "ad_nosr_norot": smp.propagate_phaseless_ad_nosr_norot}[entry]
    return fn(*args)


def run_equal(case):
    import jax.numpy as jnp
    from jax import random

    from ad_afqmc import sampling

    rng = np.random.default_rng(case["s"])
    nw = 8
    S = build(case["wt"], rng, nw, case["dt"], case["n_batch"])
    from ad_afqmc import config

    w0 = afqmc.noisy_walkers(rng, S, nw, noise=0.5, walker_type=case["wt"])
    smp = sampling.sampler(n_prop_steps=case["shape"][0], n_ene_blocks=case["shape"][1], n_sr_blocks=case["shape"][2], n_blocks=1)
    events = []
    reordered = [False]
    key = "C12/equal/%s=%s/%s" % (case["a"], case["b"], case["wt"])
    res = {}
    cnt = {"entry_calls": 0}
    nontriv = False
    for entry in (case["a"], case["b"]):
        pd = S["prop"].init_prop_data(S["trial"], S["wave_data"], S["ham_data"], w0)
        pd["key"] = random.PRNGKey(case["s"] % 65521)
        # a population in the middle of a run: unequal weights, so that the driver's reconfiguration really duplicates / drops walkers
        pd["weights"] = jnp.array(np.random.default_rng(case["s"] + 3).uniform(0.1, 3.0, size=nw))
        es = []
        try:
            for call in range(3):
                e, pd = call_entry(entry, smp, S, pd)
                es.append(float(e))
                cnt["entry_calls"] += 1
                # what the driver does between sampler calls: QR, global reconfiguration, estimate update (no overlap refresh)
                before = afqmc.np_walkers(pd["walkers"])
                pd = S["prop"].orthonormalize_walkers(pd)
                pd = S["prop"].stochastic_reconfiguration_global(pd, config.not_a_comm())
                pd["e_estimate"] = 0.9 * pd["e_estimate"] + 0.1 * float(e)
                after = afqmc.np_walkers(pd["walkers"])
                b0 = before if not isinstance(before, list) else before[0]
                a0 = after if not isinstance(after, list) else after[0]
                if len({tuple(np.round(x.ravel()[:3], 10)) for x in a0}) < a0.shape[0]:
                    reordered[0] = True
        except Exception as exc:
            events.append(ev("entry/callable", False, key="C12/callable/%s/%s" % (entry, case["wt"]), exc=repr(exc)[:300]))
            return {"events": events, "nontrivial": True, "counters": cnt}
        res[entry] = (es, np.asarray(pd["weights"]), afqmc.np_walkers(pd["walkers"]))
        if len(set(np.round(np.asarray(pd["weights"]), 12))) > 1 or True:
            nontriv = True
    ea, eb = res[case["a"]][0], res[case["b"]][0]
    # the first call always has the same pre-history; later calls too when both entry points reconfigure identically
    same_state = not (case["a"] == "plain" and case["b"] == "ad_nosr")
    n_cmp = 3 if same_state else 1
    cnt["reordering_reconfigurations"] = int(reordered[0])
    d = max(abs(x - y) / max(1.0, abs(x)) for x, y in zip(ea[:n_cmp], eb[:n_cmp]))
    events.append(judge("equal/energies", d, 1e-10, key + "/energy", a=ea, b=eb))
    if same_state:
        events.append(judge("equal/weights", float(np.max(np.abs(res[case["a"]][1] - res[case["b"]][1]))), 1e-10, key + "/weights"))
    return {"events": events, "nontrivial": nontriv, "sample": {"pair": [case["a"], case["b"]], "wt": case["wt"], "energies_a": ea, "energies_b": eb,
                                                            "reconfiguration_duplicated_a_walker": reordered[0]}, "counters": cnt}


def _engineered_population(case, S, smp, rng, nw, key0):
    """per slot, choose a start walker whose local energy AFTER the block (1 step + QR) deviates from e_estimate in a chosen way"""
    import jax.numpy as jnp
    from jax import random

    prop, trial, hd, wd = S["prop"], S["trial"], S["ham_data"], S["wave_data"]
    wt = case["wt"]
    na, nb = S["nelec"]
    norb = S["norb"]
    k1, sub = random.split(key0)
    fields = random.normal(sub, shape=(smp.n_prop_steps, nw, hd["chol"].shape[0]))
    thr = np.sqrt(2.0 / prop.dt)
    base = trial.get_init_walkers(wd, nw, restricted=(wt == "rhf"))
    # eager calls of the batched measurement routines re-trace their lax.scan bodies on every call (a new executable each time):
    # in a long search loop that exhausts the process' memory maps, so the loop uses jitted closures
    import jax

    j_ovlp = jax.jit(lambda w_: trial.calc_overlap(w_, wd))
    j_ene = jax.jit(lambda w_: trial.calc_energy(w_, hd, wd))
    pd_base = prop.init_prop_data(trial, wd, hd, base)
    chosen = [None] * nw
    want = ["imag", "real", "ok", "imag", "real", "ok", "ok", "ok"]
    found = {"imag": 0, "real": 0}
    e_est = None
    for attempt in range(400):
        amp = float(rng.choice([0.3, 0.6, 1.0, 2.0, 4.0]))
        # real perturbations give (nearly) real local energies, imaginary / complex ones large imaginary parts
        cr, ci = [(1.0, 0.0), (1.0, 1.0), (0.0, 1.0)][attempt % 3]
        if wt == "rhf":
            w = np.asarray(base) + amp * (cr * rng.normal(size=(nw, norb, na)) + 1j * ci * rng.normal(size=(nw, norb, na)))
            wj = jnp.array(w)
        else:
            wu = np.asarray(base[0]) + amp * (cr * rng.normal(size=(nw, norb, na)) + 1j * ci * rng.normal(size=(nw, norb, na)))
            wdn = np.asarray(base[1]) + amp * (cr * rng.normal(size=(nw, norb, nb)) + 1j * ci * rng.normal(size=(nw, norb, nb)))
            wj = [jnp.array(wu), jnp.array(wdn)]
        pd = afqmc.copy_pd(pd_base)
        e_est = float(pd["e_estimate"])
        pd["walkers"] = wj
        pd["overlaps"] = j_ovlp(wj)
        for st in range(smp.n_prop_steps):
            pd = prop.propagate(trial, hd, pd, fields[st], wd)
        pd = prop.orthonormalize_walkers(pd)
        el = np.asarray(j_ene(pd["walkers"]))
        wts = np.asarray(pd["weights"])
        for i in range(nw):
            if chosen[i] is not None or not np.isfinite(el[i]) or not wts[i] > 0:
                continue
            dre, dab = abs(el[i].real - e_est), abs(el[i] - e_est)
            cls = "real" if dre > thr else ("imag" if dab > thr else "ok")
            if cls == want[i]:
                chosen[i] = (w[i] if wt == "rhf" else (wu[i], wdn[i]))
                if cls in found:
                    found[cls] += 1
        if all(c is not None for c in chosen):
            break
    for i in range(nw):
        if chosen[i] is None:
            chosen[i] = (np.asarray(base)[i] if wt == "rhf" else (np.asarray(base[0])[i], np.asarray(base[1])[i]))
    if wt == "rhf":
        return jnp.array(np.array(chosen)), found
    return [jnp.array(np.array([c[0] for c in chosen])), jnp.array(np.array([c[1] for c in chosen]))], found


def run_estimator(case):
    import jax.numpy as jnp
    from jax import random

    from ad_afqmc import sampling
    from checks.c08 import replay_call

    rng = np.random.default_rng(case["s"])
    nw = 8
    S = build(case["wt"], rng, nw, case["dt"])
    smp = sampling.sampler(n_prop_steps=1, n_ene_blocks=1, n_sr_blocks=1, n_blocks=1)
    key0 = random.PRNGKey(case["s"] % 65521)
    w0, found = _engineered_population(case, S, smp, rng, nw, key0)
    prop, trial, hd, wd = S["prop"], S["trial"], S["ham_data"], S["wave_data"]
    base = trial.get_init_walkers(wd, nw, restricted=(case["wt"] == "rhf"))
    pd = prop.init_prop_data(trial, wd, hd, base)   # e_estimate from the trial's own walkers
    pd["walkers"] = w0
    pd["overlaps"] = trial.calc_overlap(w0, wd)
    pd["key"] = key0
    pd_r = afqmc.copy_pd(pd)
    events = []
    key = "C12/estimator/%s/%s" % (case["entry"], case["wt"])
    try:
        e, out = call_entry(case["entry"], smp, S, pd)
    except Exception as exc:
        return {"events": [ev("entry/callable", False, key="C12/callable/%s/%s" % (case["entry"], case["wt"]), exc=repr(exc)[:300])], "nontrivial": True,
                "counters": {"entry_calls": 1}}
    e = float(e)
    thr = np.sqrt(2.0 / prop.dt)
    e_est = float(pd_r["e_estimate"])
    capped_real = capped_imag = 0
    if case["entry"] in ("ad_nosr", "ad_nosr_norot"):
        # no reconfiguration: the returned walkers are the measured population
        el = np.asarray(trial.calc_energy(out["walkers"], hd, wd))
        w = np.asarray(out["weights"])
    else:
        # reconfiguration happened after the measurement: use the replay's pre-reconfiguration population
        er, pr = replay_call(sampling.sampler(n_prop_steps=1, n_ene_blocks=1, n_sr_blocks=1, n_blocks=1), hd, prop, pd_r, trial, wd)
        # population before reconfiguration = replay without its last two lines; recompute it explicitly
        pd2 = afqmc.copy_pd(pd)
        pd2["key"] = key0
        pd2["overlaps"] = trial.calc_overlap(pd2["walkers"], wd)
        pd2["pop_control_ene_shift"] = pd2["e_estimate"]
        k1, sub = random.split(key0)
        fields = random.normal(sub, shape=(1, nw, hd["chol"].shape[0]))
        pd2 = prop.propagate(trial, hd, pd2, fields[0], wd)
        pd2 = prop.orthonormalize_walkers(pd2)
        el = np.asarray(trial.calc_energy(pd2["walkers"], hd, wd))
        w = np.asarray(pd2["weights"])
    ere = el.real
    live = w > 0
    capped_real = int(np.sum(live & (np.abs(ere - e_est) > thr)))
    capped_imag = int(np.sum(live & (np.abs(ere - e_est) <= thr) & (np.abs(el - e_est) > thr)))
    ecl = np.where(np.abs(ere - e_est) > thr, e_est, ere)
    ref = float(np.sum(ecl * w) / np.sum(w)) if np.sum(w) > 0 else float("nan")
    if np.sum(w) > 0 and np.all(np.isfinite(ecl[live])):
        ecl2 = np.where(live, ecl, 0.0)
        ref = float(np.sum(ecl2 * w) / np.sum(w))
        events.append(judge("estimator/weight-averaged-capped-real-local-energy", abs(e - ref) / max(1.0, abs(ref)), 1e-9, key, got=e, ref=ref,
                            capped_real=capped_real, capped_imag=capped_imag, threshold=float(thr), e_estimate=e_est))
    else:
        events.append(ev("estimator/skip-dead-population", None, key="C12/estimator/skip"))
    return {"events": events, "nontrivial": (capped_real + capped_imag) > 0,
            "sample": {"entry": case["entry"], "wt": case["wt"], "energy": e, "recomputed": ref, "capped_real": capped_real, "capped_imag": capped_imag,
                       "threshold": float(thr), "local_energies": [complex(x) for x in el[:4]]},
            "counters": {"entry_calls": 1, "estimator_checks": 1, "capped_real": capped_real, "capped_imag": capped_imag}}


def _one_run(wt, entry, seed, n_batch=1):
    from jax import random

    from ad_afqmc import sampling

    rng = np.random.default_rng(seed)
    nw = 8
    S = build(wt, rng, nw, 0.02, n_batch)
    w0 = afqmc.noisy_walkers(rng, S, nw, noise=0.15, walker_type=wt)
    smp = sampling.sampler(n_prop_steps=3, n_ene_blocks=2, n_sr_blocks=2, n_blocks=1)
    pd = S["prop"].init_prop_data(S["trial"], S["wave_data"], S["ham_data"], w0)
    pd["key"] = random.PRNGKey(seed % 65521)
    es = []
    for call in range(2):
        e, pd = call_entry(entry, smp, S, pd)
        es.append(float(e))
        pd = S["prop"].orthonormalize_walkers(pd)
    return es, np.asarray(pd["weights"])


def run_repro(case):
    es1, w1 = _one_run(case["wt"], case["entry"], case["s"])
    es2, w2 = _one_run(case["wt"], case["entry"], case["s"])
    code = ("import sys, json; sys.path.insert(0, %r); from vlib import env; env.setup(); from checks import c12; "
            "es, w = c12._one_run(%r, %r, %d); print('RESULT ' + json.dumps([float.hex(x) for x in es] + [float.hex(float(x)) for x in w]))"
            % (os.path.dirname(os.path.dirname(os.path.abspath(__file__))), case["wt"], case["entry"], case["s"]))
    env = dict(os.environ)
    out = subprocess.run(["/venv/bin/python", "-c", code], capture_output=True, text=True, timeout=900, env=env)
    line = [l for l in out.stdout.splitlines() if l.startswith("RESULT ")]
    events = [ev("repro/in-process-bit-identical", bool(es1 == es2 and np.array_equal(w1, w2)), key="C12/repro/in-process", a=es1, b=es2)]
    if not line:
        events.append(ev("repro/fresh-process", None, key="C12/repro/fresh-process-failed", hard=True, err=out.stderr[-300:]))
    else:
        got = json.loads(line[0][7:])
        mine = [float.hex(x) for x in es1] + [float.hex(float(x)) for x in w1]
        events.append(ev("repro/fresh-process-bit-identical", bool(got == mine), key="C12/repro/fresh-process", a=mine[:2], b=got[:2]))
    return {"events": events, "nontrivial": True, "sample": {"energies": es1, "energies_hex": [float.hex(x) for x in es1]}, "counters": {"entry_calls": 6}}


def run_batch(case):
    res = {}
    for nb_ in (1, 2, 4, 8):
        res[nb_] = _one_run(case["wt"], case["entry"], case["s"], n_batch=nb_)
    events = []
    for nb_ in (2, 4, 8):
        d = max(abs(a - b) / max(1.0, abs(a)) for a, b in zip(res[1][0], res[nb_][0]))
        events.append(judge("batch/energies-independent-of-n_batch", d, 1e-10, "C12/batch/%s" % case["entry"], n_batch=nb_))
        events.append(judge("batch/weights-independent-of-n_batch", float(np.max(np.abs(res[1][1] - res[nb_][1]))), 1e-10, "C12/batch-weights/%s" % case["entry"], n_batch=nb_))
    return {"events": events, "nontrivial": True, "sample": {"entry": case["entry"], "energies": {str(k): v[0] for k, v in res.items()}}, "counters": {"entry_calls": 8}}


def run_callable(case):
    import jax.numpy as jnp
    from jax import random

    from ad_afqmc import sampling

    rng = np.random.default_rng(case["s"])
    nw = 4
    wt = case["wt"]
    ne = (2, 2) if (wt == "rhf" or case["kind"] in ("cisd",)) else (2, 1)
    S = afqmc.make_system(case["kind"], 4, ne, rng, walker_type=wt, dt=0.02, n_walkers=nw, nchol=3, orthonormal=True, spin_dep=False)
    smp = sampling.sampler(n_prop_steps=2, n_ene_blocks=1, n_sr_blocks=1, n_blocks=1)
    pd = S["prop_data"]
    if pd is None:   # the initial-walker generator refused (legitimately) for this trial / container combination
        return {"events": [ev("entry/skip-init-refused", None, key="C12/callable/skip-init-refused")], "nontrivial": False, "counters": {"entry_calls": 0}}
    try:
        e, out = call_entry(case["entry"], smp, S, pd)
        alive = float(np.sum(np.asarray(out["weights"]))) > 0
        info = {"energy": float(e), "population_alive": alive}
        # callable = returns; a finite energy is demanded only while some walker is alive (0/0 for an extinct population is C09's business)
        ok = bool(np.isfinite(float(e))) if alive else None
    except Exception as exc:
        ok = False
        info = {"exc": repr(exc)[:300]}
    return {"events": [ev("entry/callable", ok, key="C12/callable/%s/%s/%s" % (case["entry"], case["kind"], wt), **info)], "nontrivial": True,
            "sample": {"entry": case["entry"], "kind": case["kind"], **info}, "counters": {"entry_calls": 1}}


def run_replay(case):
    """multi-block estimator (several energy blocks inside several reconfiguration blocks) against an independent step-by-step replay"""
    import jax.numpy as jnp
    from jax import random

    from ad_afqmc import sampling
    from checks.c08 import replay_call

    rng = np.random.default_rng(case["s"])
    nw = 8
    S = build(case["wt"], rng, nw, case["dt"])
    w0 = afqmc.noisy_walkers(rng, S, nw, noise=0.5, walker_type=case["wt"])
    smp = sampling.sampler(n_prop_steps=case["shape"][0], n_ene_blocks=case["shape"][1], n_sr_blocks=case["shape"][2], n_blocks=1)
    pd = S["prop"].init_prop_data(S["trial"], S["wave_data"], S["ham_data"], w0)
    pd["key"] = random.PRNGKey(case["s"] % 65521)
    pd["weights"] = jnp.array(np.random.default_rng(case["s"] + 3).uniform(0.1, 3.0, size=nw))
    pd_r = afqmc.copy_pd(pd)
    worst = 0.0
    es = []
    for call in range(2):
        e, pd = smp.propagate_phaseless(S["ham"], S["ham_data"], S["prop"], pd, S["trial"], S["wave_data"])
        er, pd_r = replay_call(smp, S["ham_data"], S["prop"], pd_r, S["trial"], S["wave_data"])
        worst = max(worst, abs(float(e) - er) / max(1.0, abs(er)))
        es.append([float(e), er])
        pd = S["prop"].orthonormalize_walkers(pd)
        pd_r = S["prop"].orthonormalize_walkers(pd_r)
    events = [judge("replay/multi-block-estimator", worst, 1e-9, "C12/replay/%s" % case["wt"], shape=case["shape"], energies=es)]
    return {"events": events, "nontrivial": True, "sample": {"wt": case["wt"], "shape": case["shape"], "sampler_vs_replay": es}, "counters": {"entry_calls": 2}}


def run_driver(case):
    """driver.afqmc(ad_mode, orbital_rotation, do_sr) must run the documented entry point: its block energies are compared with a harness
    loop that calls that entry point directly (same seed, same equilibration, same QR / global reconfiguration / estimate update)"""
    import contextlib
    import io
    import os
    import shutil
    import tempfile

    import jax
    import jax.numpy as jnp
    from jax import random

    from ad_afqmc import config, driver, sampling

    rng = np.random.default_rng(case["s"])
    nw, dt = 6, 0.03
    wt = case["wt"]
    # a NON-converged trial (perturbed orbitals) so that orbital relaxation matters, unequal evolution so that reconfiguration matters
    S = build(wt, rng, nw, dt)
    norb = S["norb"]
    na, nb = S["nelec"]
    from checks import c18

    if wt == "rhf":
        S["wave_data"]["mo_coeff"] = jnp.array(c18.rot(rng, np.asarray(S["Cs"]), 0.25, norb))
    else:
        S["wave_data"]["mo_coeff"] = [jnp.array(c18.rot(rng, np.asarray(S["Cs"][0]), 0.25, norb)), jnp.array(c18.rot(rng, np.asarray(S["Cs"][1]), 0.25, norb))]
    S["wave_data"].pop("rdm1", None)
    shape = (2, 2, 2)
    nblocks = 3
    seed = case["s"] % 65521
    h_raw = {k_: S["ham_data"][k_] for k_ in ("h0", "h1", "chol", "ene0")}
    smp = sampling.sampler(n_prop_steps=shape[0], n_ene_blocks=shape[1], n_sr_blocks=shape[2], n_blocks=nblocks)
    options = {"dt": dt, "n_walkers": nw, "n_prop_steps": shape[0], "n_ene_blocks": shape[1], "n_sr_blocks": shape[2], "n_blocks": nblocks, "n_ene_blocks_eql": 1,
               "n_sr_blocks_eql": 1, "n_eql": 1, "seed": seed, "ad_mode": case["ad_mode"], "orbital_rotation": case["rot"], "do_sr": case["do_sr"], "walker_type": wt,
               "symmetry": False, "save_walkers": False, "trial": "rhf" if wt == "rhf" else "uhf", "ene0": 0.0, "free_projection": False, "n_batch": 1}
    cwd0 = os.getcwd()
    tmp = tempfile.mkdtemp(prefix="verif_c12drv_")
    os.chdir(tmp)
    try:
        with contextlib.redirect_stdout(io.StringIO()):
            driver.afqmc(dict(h_raw), S["ham"], S["prop"], S["trial"], dict(S["wave_data"]), smp, None, options, config.not_MPI())
        rows = np.loadtxt("samples_raw.dat").reshape(-1, 3)
    finally:
        os.chdir(cwd0)
        shutil.rmtree(tmp, ignore_errors=True)
    # ---- harness loop with the documented entry point
    trial, prop, ham = S["trial"], S["prop"], S["ham"]
    wd = dict(S["wave_data"])
    wd["rdm1"] = trial.get_rdm1(wd)
    hd = ham.build_measurement_intermediates(dict(h_raw), trial, wd)
    hd = ham.build_propagation_intermediates(hd, prop, trial, wd)
    pd = prop.init_prop_data(trial, wd, hd, None)
    pd["key"] = random.PRNGKey(seed)
    comm = config.not_a_comm()
    smp_eq = sampling.sampler(n_prop_steps=50, n_ene_blocks=1, n_sr_blocks=1, n_blocks=1)
    e, pd = smp_eq.propagate_phaseless(ham, hd, prop, pd, trial, wd)
    be = np.array([e], dtype="float32")
    pd = prop.orthonormalize_walkers(pd)
    pd = prop.stochastic_reconfiguration_global(pd, comm)
    pd["e_estimate"] = 0.9 * pd["e_estimate"] + 0.1 * be[0]
    entry = {(True, True): "ad", (True, False): "ad_nosr", (False, True): "ad_norot", (False, False): "ad_nosr_norot"}[(case["rot"], case["do_sr"])]
    if case["ad_mode"] is None:
        entry = "plain"
    elif case["ad_mode"] == "2rdm":
        entry = "ad_1"
    obs = jnp.array(hd["h1"])
    mine = []
    for n in range(nblocks):
        if entry == "plain":
            e, pd = smp.propagate_phaseless(ham, hd, prop, pd, trial, wd)
        elif entry == "ad_1":
            ch = np.asarray(hd["chol"]).reshape(np.asarray(hd["chol"]).shape[0], -1)
            eri = jnp.array(np.einsum("gj,gl->jl", ch, ch).reshape(norb, norb, norb, norb))
            e, pd = smp.propagate_phaseless_ad_1(ham, hd, 1.0, eri, prop, pd, trial, wd)
        elif case["ad_mode"] == "reverse":
            e, pd = call_entry_obs(entry, smp, S, hd, wd, pd, 0.0 * obs, coupling=1.0)
        else:
            e, pd = call_entry_obs(entry, smp, S, hd, wd, pd, obs)
        e32 = float(np.array([e], dtype="float32")[0])
        w32 = float(np.array([jnp.sum(pd["weights"])], dtype="float32")[0])
        mine.append(e32)
        pd = prop.orthonormalize_walkers(pd)
        pd = prop.stochastic_reconfiguration_global(pd, comm)
        pd["e_estimate"] = 0.9 * pd["e_estimate"] + 0.1 * e32
    d = float(np.max(np.abs(rows[:, 1] - np.array(mine))))
    sc = max(1.0, float(np.max(np.abs(rows[:, 1]))))
    key = "C12/driver-selects/%s/rot=%s/sr=%s/%s" % (case["ad_mode"], case["rot"], case["do_sr"], wt)
    events = [judge("driver/runs-the-documented-entry-point", d / sc, 5e-6, key, driver=rows[:, 1].tolist(), direct=mine, entry=entry)]
    return {"events": events, "nontrivial": True, "sample": {"entry": entry, "driver_block_energies": rows[:, 1].tolist(), "direct_block_energies": mine},
            "counters": {"entry_calls": nblocks + 1, "driver_selection_checks": 1}}


def call_entry_obs(entry, smp, S, hd, wd, pd, obs, coupling=0.0):
    fn = {"ad": smp.propagate_phaseless_ad, "ad_nosr": smp.propagate_phaseless_ad_nosr, "ad_norot": smp.propagate_phaseless_ad_norot,
          "ad_nosr_norot": smp.propagate_phaseless_ad_nosr_norot}[entry]
    return fn(S["ham"], hd, coupling, obs, S["prop"], pd, S["trial"], wd)


def run_mutate(case):
    from jax import random

    from ad_afqmc import sampling

    rng = np.random.default_rng(case["s"])
    wt = case["wt"]
    S = build(wt, rng, 6, 0.03)
    shapes = [(2, 2, 1), (2, 1, 1), (4, 1, 2)] if case["s"] % 2 else [(3, 1, 2), (3, 2, 2), (2, 2, 1)]
    smp = sampling.sampler(n_prop_steps=shapes[0][0], n_ene_blocks=shapes[0][1], n_sr_blocks=shapes[0][2], n_blocks=1)
    events = []
    key = "C12/mutated-sampler/%s/%s" % (case["entry"], wt)
    for (a_, b_, c_) in shapes:
        smp.n_prop_steps, smp.n_ene_blocks, smp.n_sr_blocks = a_, b_, c_        # the SAME object, new block structure
        fresh = sampling.sampler(n_prop_steps=a_, n_ene_blocks=b_, n_sr_blocks=c_, n_blocks=1)
        outs = []
        for which in (smp, fresh):
            pd = S["prop"].init_prop_data(S["trial"], S["wave_data"], S["ham_data"], None)
            pd["key"] = random.PRNGKey(case["s"] % 65521)
            e, pd = call_entry(case["entry"], which, S, pd)
            outs.append((float(e), np.asarray(pd["weights"])))
        events.append(judge("mutated-sampler/same-as-a-fresh-sampler-with-that-block-structure",
                            max(abs(outs[0][0] - outs[1][0]), float(np.max(np.abs(outs[0][1] - outs[1][1])))), 1e-12, key, shape=[a_, b_, c_],
                            reused=outs[0][0], fresh=outs[1][0]))
    return {"events": events, "nontrivial": True, "sample": {"entry": case["entry"], "shapes": shapes}, "counters": {"entry_calls": 2 * len(shapes)}}


def run_seedopt(case):
    """options -> mpi_jax._prep_afqmc -> driver.afqmc: the seed the user gives (0 included) is the seed that is used, and two runs with
    it give bit-identical samples whatever the state of NumPy's global generator"""
    import contextlib
    import io
    import os
    import shutil
    import tempfile

    import h5py

    from ad_afqmc import config, driver, mpi_jax

    rng = np.random.default_rng(case["s"])
    wt = case["wt"]
    S = build(wt, rng, 4, 0.02)
    norb = S["norb"]
    na, nb = S["nelec"]
    hd = S["ham_data"]
    chol = np.asarray(hd["chol"]).reshape(-1, norb, norb)
    Cs = S["Cs"] if wt != "rhf" else [S["Cs"], S["Cs"]]
    mo = np.zeros((2, norb, norb))
    for s_ in range(2):
        c_occ = np.asarray(Cs[s_])
        full = np.linalg.qr(np.hstack([c_occ, np.random.default_rng(5 + s_).normal(size=(norb, norb - c_occ.shape[1]))]))[0]
        full[:, : c_occ.shape[1]] = c_occ
        mo[s_] = full
    cwd0 = os.getcwd()
    tmp = tempfile.mkdtemp(prefix="verif_c12seed_")
    os.chdir(tmp)
    events = []
    key = "C12/seed-option/%s" % wt
    try:
        with h5py.File("FCIDUMP_chol", "w") as fh:
            fh["header"] = np.array([na + nb, norb, na - nb, chol.shape[0]], dtype=np.int64)
            fh["hcore"] = np.asarray(hd["h1"])[0].flatten()
            fh["chol"] = chol.flatten()
            fh["energy_core"] = np.array([float(np.asarray(hd["h0"]))])
        np.savez("mo_coeff.npz", mo_coeff=mo)
        runs = {}
        for seed in (0, 0, 5, 5):
            opts = {"dt": 0.02, "n_walkers": 4, "n_prop_steps": 2, "n_ene_blocks": 1, "n_sr_blocks": 2, "n_blocks": 3, "n_ene_blocks_eql": 1, "n_sr_blocks_eql": 1,
                    "n_eql": 1, "seed": seed, "walker_type": wt, "trial": "rhf" if wt == "rhf" else "uhf"}
            np.random.seed(int(rng.integers(1 << 30)))   # the global NumPy state must be irrelevant once a seed is given
            with contextlib.redirect_stdout(io.StringIO()):
                hd_, ham_, prop_, trial_, wd_, smp_, obs_, opt_, _mpi = mpi_jax._prep_afqmc(dict(opts))
                events.append(ev("seed-option/seed-kept", bool(opt_["seed"] == seed), key=key + "/seed-kept", given=seed, used=int(opt_["seed"])))
                driver.afqmc(hd_, ham_, prop_, trial_, wd_, smp_, obs_, opt_, config.not_MPI())
            runs.setdefault(seed, []).append(np.loadtxt("samples_raw.dat").reshape(-1, 3))
        for seed, (a_, b_) in runs.items():
            events.append(ev("seed-option/bit-reproducible", bool(np.array_equal(a_, b_)), key=key + "/bit-reproducible", seed=seed,
                             max_diff=float(np.max(np.abs(a_ - b_)))))
        events.append(ev("seed-option/different-seeds-differ", bool(not np.array_equal(runs[0][0], runs[5][0])), key=key + "/seeds-differ"))
    finally:
        os.chdir(cwd0)
        shutil.rmtree(tmp, ignore_errors=True)
    return {"events": events, "nontrivial": True, "sample": {"wt": wt, "block_energies_seed0": runs[0][0][:, 1].tolist()}, "counters": {"seed_option_runs": 4}}


def run_case(case):
    if case["type"] == "mutate":
        return run_mutate(case)
    if case["type"] == "seedopt":
        return run_seedopt(case)
    if case["type"] == "driver":
        return run_driver(case)
    if case["type"] == "replay":
        return run_replay(case)
    return {"equal": run_equal, "estimator": run_estimator, "repro": run_repro, "batch": run_batch, "callable": run_callable}[case["type"]](case)
