"""C07 - stochastic reconfiguration is an unbiased, weight-conserving comb (all implementations,
1..4 ranks over a thread communicator with injected delays at the collectives)."""
import math

import numpy as np

from vlib.monitor import ev, judge

ID = "C07"
LEVEL_TEXT = ("Index-tagged walkers make every output row identify its source; the real jitted / NumPy / gather-scatter "
              "implementations are checked against comb post-conditions, the expectation over the offset is integrated exactly "
              "over its breakpoints, and multi-rank runs (threads + mpi4py-like communicator, random delays at the collectives) "
              "are compared with the serial comb on the rank-ordered population. Held = on all generated weight vectors / "
              "offsets / interleavings observed.")
LEVEL_NOTE = ("trusted: NumPy; vlib.fakempi stands in for MPI (byte-copy collectives, count checks); a real MPI library's datatype "
              "handling is not exercised (no libmpi in the sandbox)")
TECHNIQUE = "runtime monitoring: tagged-history post-condition checker + exact breakpoint integration + sequential comb model"
RULE = ("cases = population size N (1..64) x weight pattern (ones, random, with zeros, mixed signs, 12 decades, one dominant, "
        "single survivor, tiny) x container (restricted array / unrestricted [up,dn]) x seed; rank cases add R in 1..4 and a delay "
        "seed; non-trivial = weights not all equal or N >= 2 with at least two distinct sources selected or dropped; the "
        "offset expectation is integrated over every breakpoint interval wider than 1e-9")
MIN_NONTRIVIAL = {"quick": 60, "thorough": 500}
TIMEOUT = {"quick": 900, "thorough": 5400}
ASSUMPTIONS = ["zeta strictly inside (0,1); breakpoint intervals narrower than 1e-9 are skipped and their width added to the tolerance",
               "multi-rank behaviour observed over vlib.fakempi (thread communicator), equal partitions",
               "total weight > 0 (a population with zero total weight has no defined comb)"]
REQUIRED_COUNTERS = {"comb_calls": 500, "rank_runs": 10, "distinct_arrival_orders": 4, "contract_comb_postcondition": 10, "mpi_driver_reconfigurations": 3}
PATTERNS = ["ones", "random", "zeros", "signs", "decades", "dominant", "single", "tiny", "ties", "nearly-uniform"]


def make_weights(rng, n, pattern):
    if pattern == "ones":
        w = np.ones(n)
    elif pattern == "random":
        w = rng.uniform(0.05, 2.0, size=n)
    elif pattern == "zeros":
        w = rng.uniform(0.1, 2.0, size=n)
        w[rng.random(n) < 0.4] = 0.0
        if not w.any():
            w[rng.integers(n)] = 1.0
    elif pattern == "signs":
        w = rng.uniform(0.1, 2.0, size=n) * rng.choice([-1.0, 1.0], size=n)
    elif pattern == "decades":
        w = 10.0 ** rng.uniform(-9, 3, size=n)
    elif pattern == "dominant":
        w = rng.uniform(0.01, 0.1, size=n)
        w[rng.integers(n)] = 50.0
    elif pattern == "single":
        w = np.zeros(n)
        w[rng.integers(n)] = rng.uniform(0.5, 3.0)
    elif pattern == "tiny":
        w = rng.uniform(1e-12, 1e-10, size=n)
    elif pattern == "ties":
        w = rng.choice([0.5, 1.0, 1.5], size=n)
    elif pattern == "nearly-uniform":
        # what a population looks like right after a local reconfiguration plus a little drift: the comb is the identity except for
        # offsets within ~1e-6 of 0 or 1 (which the zeta list and the breakpoint integration both visit)
        w = 1.3 * (1.0 + 1e-6 * rng.uniform(-1, 1, size=n))
    return w


def tagged(n, norb=3, nocc=2, nocc_dn=1):
    tags = np.arange(1, n + 1)
    up = tags[:, None, None] * (1.0 + 0.5j) * np.ones((n, norb, nocc))
    dn = -tags[:, None, None] * (2.0 - 1.0j) * np.ones((n, norb, nocc_dn))
    return up, dn


def src_of(rows, factor):
    """source index of each output row, -1 when the row is not an exact copy of an input row"""
    v = rows[:, 0, 0] / factor
    idx = np.rint(v.real).astype(int) - 1
    ok = np.array([np.all(rows[k] == (idx[k] + 1) * factor) for k in range(rows.shape[0])])
    return np.where(ok, idx, -1)


def gen_cases(tier, seed):
    rng = np.random.default_rng([seed, 7])
    q = tier == "quick"
    cases = []
    sizes = [1, 2, 3, 5, 8, 16, 33] if q else [1, 2, 3, 4, 5, 7, 8, 12, 16, 25, 33, 50, 64, 100, 128]
    for n in sizes:
        for pat in PATTERNS:
            for cont in ("r", "u"):
                for rep in range(1 if q else 12):
                    cases.append({"type": "single", "n": n, "pattern": pat, "container": cont,
                                  "s": int(rng.integers(1 << 30)), "group": "single-%d-%s" % (n, cont)})
    for R in (1, 2, 3, 4):
        for npr in ([1, 2, 5] if q else [1, 2, 3, 5, 8, 16]):
            for cont in ("r", "u"):
                for pat in (["random", "zeros", "dominant"] if q else PATTERNS):
                    for rep in range(1 if q else 8):
                        cases.append({"type": "ranks", "R": R, "n": npr, "pattern": pat, "container": cont,
                                      "s": int(rng.integers(1 << 30)), "via": str(rng.choice(["sr", "prop"])),
                                      "group": "ranks-%d-%d-%s" % (R, npr, cont), "cost": 2})
    for wt, ad in (("rhf", None), ("uhf", "reverse")) if q else (("rhf", None), ("uhf", "reverse"), ("uhf", None), ("rhf", "forward")):
        cases.append({"type": "driver", "wt": wt, "ad_mode": ad, "s": int(rng.integers(1 << 30)), "group": "drv-%s-%s" % (wt, ad), "cost": 40})
    # the real driver split over R thread-ranks: every global reconfiguration it performs is compared with the serial comb
    for R in ((2,) if q else (2, 3, 4, 2)):
        for wt in (("uhf",) if q else ("rhf", "uhf")):
            cases.append({"type": "mpi_driver", "R": R, "wt": wt, "s": int(rng.integers(1 << 30)), "group": "mpidrv-%d-%s-%d" % (R, wt, len(cases)), "cost": 80})
    return cases


def comb_model(absw, zeta):
    """15-line sequential comb: the walker whose cumulative-weight interval contains the tooth."""
    n = len(absw)
    cum = np.cumsum(absw)
    tot = cum[-1]
    out = []
    for k in range(n):
        z = tot * (k + zeta) / n
        i = 0
        while i < n - 1 and cum[i] < z:
            i += 1
        out.append(i)
    return np.array(out), tot / n


def _impls(container):
    import jax.numpy as jnp

    from ad_afqmc import config, sr

    comm1 = config.not_a_comm()
    if container == "r":
        def f_jit(up, dn, w, z):
            a, b = sr.stochastic_reconfiguration(jnp.array(up), jnp.array(w), z)
            return np.asarray(a), None, np.asarray(b)

        def f_np(up, dn, w, z):
            a, b = sr.stochastic_reconfiguration_np(jnp.array(up), jnp.array(w), z)
            return np.asarray(a), None, np.asarray(b)

        def f_mpi(up, dn, w, z):
            a, b = sr.stochastic_reconfiguration_mpi(jnp.array(up), jnp.array(w), z, comm1)
            return np.asarray(a), None, np.asarray(b)

        return {"jit": f_jit, "np": f_np, "mpi1": f_mpi}

    def f_jit(up, dn, w, z):
        a, b = sr.stochastic_reconfiguration_uhf([jnp.array(up), jnp.array(dn)], jnp.array(w), z)
        return np.asarray(a[0]), np.asarray(a[1]), np.asarray(b)

    def f_mpi(up, dn, w, z):
        a, b = sr.stochastic_reconfiguration_mpi_uhf([jnp.array(up), jnp.array(dn)], jnp.array(w), z, comm1)
        return np.asarray(a[0]), np.asarray(a[1]), np.asarray(b)

    return {"jit_uhf": f_jit, "mpi1_uhf": f_mpi}


UP_F = 1.0 + 0.5j
DN_F = -(2.0 - 1.0j)


def check_output(name, up_o, dn_o, w_o, w_in, zeta, key, events, margin=1e-9):
    """post-conditions of one reconfiguration; returns the count vector (or None)"""
    n = len(w_in)
    absw = np.abs(w_in)
    W = absw.sum()
    s_up = src_of(up_o, UP_F)
    if np.any(s_up < 0) or np.any(s_up >= n):
        events.append(ev("comb/copies-only", False, key=key + "/copies-only", impl=name, zeta=zeta))
        return None
    if dn_o is not None:
        s_dn = src_of(dn_o, DN_F)
        if not np.array_equal(s_up, s_dn):
            events.append(ev("comb/up-dn-together", False, key=key + "/up-dn-together", impl=name, up=s_up.tolist(), dn=s_dn.tolist()))
            return None
    if not (np.all(w_o == w_o[0]) and abs(n * w_o[0] - W) <= 1e-13 * W and np.all(np.isfinite(w_o))):
        events.append(ev("comb/weights", False, float(abs(n * w_o[0] - W) / W), 1e-13, key + "/weights-equal-and-conserved",
                         impl=name, w_out=w_o[:4].tolist(), total=W))
        return None
    counts = np.bincount(s_up, minlength=n)
    ideal = n * absw / W
    lo = np.floor(ideal - margin)
    hi = np.ceil(ideal + margin)
    bad = (counts < lo) | (counts > hi) | ((absw == 0) & (counts > 0))
    if bad.any():
        i = int(np.nonzero(bad)[0][0])
        events.append(ev("comb/floor-ceil", False, key=key + "/floor-ceil", impl=name, zeta=zeta, walker=i,
                         count=int(counts[i]), ideal=float(ideal[i]), weight=float(w_in[i])))
        return None
    return counts


def run_single(case):
    rng = np.random.default_rng(case["s"])
    n = case["n"]
    w = make_weights(rng, n, case["pattern"])
    up, dn = tagged(n)
    impls = _impls(case["container"])
    events = []
    key = "C07/%s" % case["container"]
    absw = np.abs(w)
    W = absw.sum()
    cum = np.cumsum(absw)
    ncalls = 0
    # ---- post-conditions at random and extreme offsets, every implementation
    zetas = list(rng.uniform(0, 1, size=6)) + [1e-12, 1 - 1e-12, 0.5]
    bps = np.sort(np.unique(np.concatenate([[0.0, 1.0], np.mod(n * cum / W, 1.0)])))
    allok = True
    selected_sets = set()
    for z in zetas:
        near = np.min(np.abs(bps - z)) < 1e-9 and z not in (1e-12, 1 - 1e-12)
        outs = {}
        for name, f in impls.items():
            u_o, d_o, w_o = f(up, dn, w, float(z))
            ncalls += 1
            c = check_output(name, u_o, d_o, w_o, w, float(z), key + "/" + name, events)
            if c is None:
                allok = False
            outs[name] = c
            if c is not None:
                selected_sets.add(tuple(c.tolist()))
        good = [c for c in outs.values() if c is not None]
        if len(good) == len(outs) and not near and 1e-9 < z < 1 - 1e-9:
            same = all(np.array_equal(good[0], c) for c in good[1:])
            ref, _ = comb_model(absw, float(z))
            same_model = np.array_equal(np.bincount(ref, minlength=n), good[0])
            if not same:
                events.append(ev("comb/cross-implementation", False, key=key + "/cross-implementation", zeta=float(z),
                                 counts={k: v.tolist() for k, v in outs.items()}))
                allok = False
            if not same_model:
                events.append(ev("comb/vs-sequential-model", False, key=key + "/vs-sequential-model", zeta=float(z),
                                 model=np.bincount(ref, minlength=n).tolist(), got=good[0].tolist()))
                allok = False
    # ---- exact expectation over the offset: integrate over the breakpoint intervals (jitted implementation)
    name0 = list(impls)[0]
    f0 = impls[name0]
    expect = np.zeros(n)
    skipped = 0.0
    for a, b in zip(bps[:-1], bps[1:]):
        if b - a < 1e-9:
            skipped += b - a
            continue
        mid = 0.5 * (a + b)
        u_o, d_o, w_o = f0(up, dn, w, float(mid))
        ncalls += 1
        s = src_of(u_o, UP_F)
        if np.any(s < 0):
            events.append(ev("comb/copies-only", False, key=key + "/" + name0 + "/copies-only", zeta=float(mid)))
            allok = False
            break
        expect += (b - a) * np.bincount(s, minlength=n)
    else:
        r = float(np.max(np.abs(expect - n * absw / W)))
        events.append(judge("comb/expectation-over-offset", r, 1e-10 + 2 * n * skipped, key + "/" + name0 + "/expectation",
                            n=n, pattern=case["pattern"], intervals=len(bps) - 1))
    # ---- propagator level: local / global draw the offset from prop_data["key"]
    events += _prop_level(case, up, dn, w, key)
    if allok:
        events.append(ev("comb/post-conditions", True, 0.0, 0.0, key + "/post-conditions", calls=ncalls))
    nontriv = n >= 2 and (len(set(np.round(absw, 14))) > 1 or len(selected_sets) > 1)
    return {"events": events, "nontrivial": bool(nontriv),
            "sample": {"weights": w[:8].tolist(), "ideal_counts": (n * absw / W)[:8].tolist(),
                       "expected_counts_integrated": expect[:8].tolist(), "breakpoints": len(bps)},
            "counters": {"comb_calls": ncalls}}


def _prop_level(case, up, dn, w, key):
    import jax.numpy as jnp
    from jax import random

    from ad_afqmc import config, propagation, sr

    n = len(w)
    evs = []
    if case["container"] == "r":
        prop = propagation.propagator_restricted(n_walkers=n)
        walkers = jnp.array(up)
    else:
        prop = propagation.propagator_unrestricted(n_walkers=n)
        walkers = [jnp.array(up), jnp.array(dn)]
    k0 = random.PRNGKey(case["s"] % 9973)
    knew, sub = random.split(k0)
    zeta = float(random.uniform(sub))
    for which in ("local", "global"):
        pd = {"walkers": walkers if case["container"] == "r" else [walkers[0], walkers[1]], "weights": jnp.array(w), "key": k0}
        if which == "local":
            out = prop.stochastic_reconfiguration_local(pd)
        else:
            out = prop.stochastic_reconfiguration_global(pd, config.not_a_comm())
        uo = np.asarray(out["walkers"] if case["container"] == "r" else out["walkers"][0])
        do = None if case["container"] == "r" else np.asarray(out["walkers"][1])
        c = check_output("prop-" + which, uo, do, np.asarray(out["weights"]), w, zeta, key + "/prop-" + which, evs)
        if c is not None:
            ref, _ = comb_model(np.abs(w), zeta)
            bps_d = np.min(np.abs(np.mod(n * np.cumsum(np.abs(w)) / np.abs(w).sum(), 1.0) - zeta))
            if bps_d > 1e-9:
                evs.append(ev("comb/prop-uses-key-offset", bool(np.array_equal(np.bincount(ref, minlength=n), c)),
                              key=key + "/prop-%s/offset-from-key" % which, zeta=zeta))
            evs.append(ev("comb/prop-key-advanced", bool(np.array_equal(np.asarray(out["key"]), np.asarray(knew))),
                          key=key + "/prop-%s/key-advanced" % which))
    return evs


def run_ranks(case):
    import jax.numpy as jnp
    from jax import random

    from ad_afqmc import propagation, sr
    from vlib import fakempi

    rng = np.random.default_rng(case["s"])
    R, npr = case["R"], case["n"]
    n = R * npr
    w = make_weights(rng, n, case["pattern"])
    up, dn = tagged(n)
    cont = case["container"]
    key = "C07/ranks/%s/%s" % (cont, case["via"])
    events = []
    seed0 = case["s"] % 9973
    zetas = []
    for r in range(R):
        _, sub = random.split(random.PRNGKey(seed0 + r))
        zetas.append(float(random.uniform(sub)))
    zeta0 = zetas[0] if case["via"] == "prop" else float(rng.uniform(0.001, 0.999))
    sigs = set()
    nrep = 3
    for rep in range(nrep):
        def fn(comm):
            r = comm.Get_rank()
            sl = slice(r * npr, (r + 1) * npr)
            if case["via"] == "sr":
                z = zeta0 if r == 0 else float(np.random.default_rng(case["s"] + r).uniform())  # only root's offset may matter
                if cont == "r":
                    a, b = sr.stochastic_reconfiguration_mpi(jnp.array(up[sl]), jnp.array(w[sl]), z, comm)
                    return np.asarray(a), None, np.asarray(b)
                a, b = sr.stochastic_reconfiguration_mpi_uhf([jnp.array(up[sl]), jnp.array(dn[sl])], jnp.array(w[sl]), z, comm)
                return np.asarray(a[0]), np.asarray(a[1]), np.asarray(b)
            if cont == "r":
                prop = propagation.propagator_restricted(n_walkers=npr)
                pd = {"walkers": jnp.array(up[sl]), "weights": jnp.array(w[sl]), "key": random.PRNGKey(seed0 + r)}
                out = prop.stochastic_reconfiguration_global(pd, comm)
                return np.asarray(out["walkers"]), None, np.asarray(out["weights"])
            prop = propagation.propagator_unrestricted(n_walkers=npr)
            pd = {"walkers": [jnp.array(up[sl]), jnp.array(dn[sl])], "weights": jnp.array(w[sl]),
                  "key": random.PRNGKey(seed0 + r)}
            out = prop.stochastic_reconfiguration_global(pd, comm)
            return np.asarray(out["walkers"][0]), np.asarray(out["walkers"][1]), np.asarray(out["weights"])

        results, world = fakempi.run_ranks(R, fn, seed=case["s"] + rep)
        errs = [e for e in world.errors if e is not None]
        if errs:
            events.append(ev("ranks/completed", False, key=key + "/exception", exc=repr(errs[0])[:300]))
            continue
        ok, per_rank = fakempi.collectives_consistent(world)
        events.append(ev("ranks/collectives-matched", bool(ok), key=key + "/collectives-matched",
                         ops=per_rank.get(0)))
        sigs.add(fakempi.arrival_signature(world))
        uo = np.concatenate([r[0] for r in results])
        do = None if cont == "r" else np.concatenate([r[1] for r in results])
        wo = np.concatenate([r[2] for r in results])
        c = check_output("R%d" % R, uo, do, wo, w, zeta0, key, events)
        if c is not None:
            ref, _ = comb_model(np.abs(w), zeta0)
            s_up = src_of(uo, UP_F)
            bps_d = np.min(np.abs(np.mod(n * np.cumsum(np.abs(w)) / np.abs(w).sum(), 1.0) - zeta0))
            if bps_d > 1e-9:
                events.append(ev("ranks/equals-serial-comb", bool(np.array_equal(s_up, ref)), key=key + "/equals-serial-comb",
                                 got=s_up.tolist()[:16], serial=ref.tolist()[:16], R=R, zeta=zeta0))
    return {"events": events, "nontrivial": n >= 2,
            "sample": {"R": R, "per_rank": npr, "weights": w[:8].tolist(), "zeta_root": zeta0,
                       "arrival_orders_seen": len(sigs)},
            "counters": {"rank_runs": nrep, "distinct_arrival_orders": len(sigs) if R > 1 else 0}}


def run_mpi_driver(case):
    """driver.afqmc on R threads over vlib.fakempi; sr.stochastic_reconfiguration_mpi(_uhf) is wrapped to record every rank's
    input / output; offline checker: concatenated outputs == serial comb of the rank-ordered concatenated inputs with rank 0's offset"""
    import contextlib
    import io
    import os
    import shutil
    import tempfile
    import threading

    import jax.numpy as jnp

    from ad_afqmc import driver, hamiltonian, propagation, sampling, sr, wavefunctions
    from checks.c08 import _converged_system
    from vlib import fakempi, trials

    R, wt = case["R"], case["wt"]
    rng = np.random.default_rng(case["s"])
    nw, dt, norb = 4, 0.03, 4
    kind, ne, ham_t, Cs = _converged_system(wt, rng, nw, dt, None)
    h0, h1, chol = ham_t
    records = []
    lock = threading.Lock()
    seq = {}
    saved = {}

    def make_logged(name):
        orig = getattr(sr, name)
        saved[name] = orig

        def logged(walkers, weights, zeta, comm):
            r = comm.Get_rank()
            w_in = [np.array(walkers[0]), np.array(walkers[1])] if isinstance(walkers, list) else np.array(walkers)
            wt_in = np.array(weights)
            out_w, out_wt = orig(list(walkers) if isinstance(walkers, list) else walkers, weights, zeta, comm)
            w_out = [np.array(out_w[0]), np.array(out_w[1])] if isinstance(out_w, list) else np.array(out_w)
            with lock:
                k = seq.get(r, 0)
                seq[r] = k + 1
                records.append({"rank": r, "seq": k, "w_in": w_in, "wt_in": wt_in, "zeta": float(zeta), "w_out": w_out, "wt_out": np.array(out_wt)})
            return out_w, out_wt

        setattr(sr, name, logged)

    for nm in ("stochastic_reconfiguration_mpi", "stochastic_reconfiguration_mpi_uhf"):
        make_logged(nm)
    nblocks = 3
    energies = {}

    def rank_main(comm):
        if kind == "rhf":
            trial = wavefunctions.rhf(norb, ne)
            wd = {"mo_coeff": jnp.array(Cs)}
            prop = propagation.propagator_restricted(dt=dt, n_walkers=nw)
        else:
            trial = wavefunctions.uhf(norb, ne)
            wd = {"mo_coeff": [jnp.array(Cs[0]), jnp.array(Cs[1])]}
            prop = propagation.propagator_unrestricted(dt=dt, n_walkers=nw)
        ham = hamiltonian.hamiltonian(norb)
        hd = trials.ham_data_of(h0, h1, chol)
        smp = sampling.sampler(n_prop_steps=3, n_ene_blocks=1, n_sr_blocks=1, n_blocks=nblocks)
        options = {"dt": dt, "n_walkers": nw, "n_prop_steps": 3, "n_ene_blocks": 1, "n_sr_blocks": 1, "n_blocks": nblocks, "n_ene_blocks_eql": 1, "n_sr_blocks_eql": 1,
                   "n_eql": 1, "seed": case["s"] % 65521, "ad_mode": None, "orbital_rotation": True, "do_sr": True, "walker_type": wt, "symmetry": False,
                   "save_walkers": False, "trial": kind, "ene0": 0.0, "free_projection": False, "n_batch": 1}
        e, err = driver.afqmc(hd, ham, prop, trial, wd, smp, None, options, fakempi.FakeMPI(comm))
        energies[comm.Get_rank()] = e
        return e

    cwd0 = os.getcwd()
    tmp = tempfile.mkdtemp(prefix="verif_mpidrv_")
    os.chdir(tmp)
    buf = io.StringIO()
    try:
        with contextlib.redirect_stdout(buf):
            results, world = fakempi.run_ranks(R, rank_main, seed=case["s"], max_delay=0.003)
    finally:
        for nm, f in saved.items():
            setattr(sr, nm, f)
        os.chdir(cwd0)
        shutil.rmtree(tmp, ignore_errors=True)
    events = []
    key = "C07/mpi-driver/%s" % wt
    errs = [e for e in world.errors if e is not None]
    if errs:
        events.append(ev("mpi-driver/completed", False, key=key + "/exception", exc=repr(errs[0])[:400]))
        return {"events": events, "nontrivial": True, "counters": {"mpi_driver_reconfigurations": 0}}
    okc, per_rank = fakempi.collectives_consistent(world)
    events.append(ev("mpi-driver/collectives-matched", bool(okc), key=key + "/collectives-matched", n_collectives=len(per_rank.get(0, []))))
    events.append(ev("mpi-driver/all-ranks-return-same-energy", bool(len({float(v) for v in energies.values()}) == 1), key=key + "/energy-broadcast",
                     energies={str(k): float(v) for k, v in energies.items()}))
    ncalls = min(seq.values()) if seq else 0
    n_ok = 0
    for k in range(ncalls):
        recs = sorted([r for r in records if r["seq"] == k], key=lambda r: r["rank"])
        if len(recs) != R:
            events.append(ev("mpi-driver/every-rank-reconfigures", False, key=key + "/missing-rank-call", call=k))
            continue
        uhf = isinstance(recs[0]["w_in"], list)
        w_in = np.concatenate([r["wt_in"] for r in recs])
        zeta0 = recs[0]["zeta"]
        n = w_in.size
        ref, avg = comb_model(np.abs(w_in), zeta0)
        bps_d = np.min(np.abs(np.mod(n * np.cumsum(np.abs(w_in)) / np.abs(w_in).sum(), 1.0) - zeta0))
        wt_out = np.concatenate([r["wt_out"] for r in recs])
        ok_w = bool(np.all(wt_out == wt_out[0]) and abs(n * wt_out[0] - np.abs(w_in).sum()) <= 1e-12 * np.abs(w_in).sum())
        events.append(ev("mpi-driver/weights-equal-and-conserved", ok_w, key=key + "/weights", call=k))
        if bps_d > 1e-9:
            if uhf:
                a_in = [np.concatenate([r["w_in"][s_] for r in recs]) for s_ in range(2)]
                a_out = [np.concatenate([r["w_out"][s_] for r in recs]) for s_ in range(2)]
                same = all(np.array_equal(a_in[s_][ref], a_out[s_]) for s_ in range(2))
            else:
                a_in = np.concatenate([r["w_in"] for r in recs])
                a_out = np.concatenate([r["w_out"] for r in recs])
                same = np.array_equal(a_in[ref], a_out)
            events.append(ev("mpi-driver/equals-serial-comb-of-rank-ordered-population", bool(same), key=key + "/equals-serial-comb", call=k, R=R, zeta_root=zeta0,
                             zetas=[r["zeta"] for r in recs]))
            n_ok += int(same)
    return {"events": events, "nontrivial": ncalls > 0,
            "sample": {"R": R, "walker_type": wt, "reconfigurations": ncalls, "collectives_per_rank": len(per_rank.get(0, [])),
                       "distinct_arrival_orders_within_run": len(set(tuple(v) for v in world.arrivals.values())), "energy": float(list(energies.values())[0])},
            "counters": {"mpi_driver_reconfigurations": ncalls, "mpi_driver_collectives": len(world.log),
                         "mpi_driver_arrival_orders": len(set(tuple(v) for v in world.arrivals.values()))}}


def run_case(case):
    if case["type"] == "mpi_driver":
        return run_mpi_driver(case)
    if case["type"] == "driver":
        from vlib import contracts

        return contracts.driver_case(("sr",), ["comb-postcondition"], case, "C07")
    return run_single(case) if case["type"] == "single" else run_ranks(case)
