"""C01 - trial overlap equals <psi_T|phi> (Fock-space reference), R == U entry points, batched
evaluation in walker order, trial 1-RDM = <a+ a>."""
import numpy as np

from vlib import fockref, measure, trials
from vlib.monitor import ev, judge

ID = "C01"
LEVEL_TEXT = ("Every generated (trial kind, sector, parameters, complex walker) is evaluated by the real overlap routines and "
              "compared with the inner product of explicit second-quantised Fock vectors; held = agreed on all K cases of the "
              "stated classes. Exploration is the honest level for a monitor: inputs outside the generators are not covered.")
LEVEL_NOTE = "trusted: NumPy/SciPy; vlib.fockref (Jordan-Wigner model, cross-validated against pyscf FCI to 1e-14); norb <= 5"
TECHNIQUE = "runtime monitoring with an independent Fock-space reference-model oracle on call/return values"
RULE = ("cases = trial kind (13 kinds) x norb x (n_up,n_dn) x seed; each case draws fresh trial parameters and several complex "
        "non-orthonormal walkers and judges single-walker unrestricted / restricted entry points, batched list/array "
        "evaluation for several n_batch, and (single-determinant, NOCI) the 1-RDM; non-trivial = |<psi|phi>| >= 1e-6 |psi||phi| "
        "and the Green's-function denominator has cond <= 1e8 (else skipped and counted); distinct = distinct descriptor")
MIN_NONTRIVIAL = {"quick": 150, "thorough": 900}
TIMEOUT = {"quick": 1200, "thorough": 7200}
ASSUMPTIONS = [
    "trial parameters are real (complex trial orbitals are outside the admissible set), walkers complex",
    "norb <= 4 (quick) / 5 (thorough): Fock dimension <= 1024",
    "multi-Slater and AD-based CI kinds are driven with n_dn >= 1 (the quantifier); n_dn = 0 is not judged for them",
]
REQUIRED_COUNTERS = {"single_u": 50, "single_r": 30, "batched": 20, "rdm": 8}


def gen_cases(tier, seed):
    rng = np.random.default_rng([seed, 1])
    q = tier == "quick"
    cases = []
    for kind in trials.ALL_KINDS:
        norbs = [2, 3, 4] if q else [2, 3, 4, 5]
        for norb in norbs:
            secs = measure.sectors(norb, kind)
            if q and norb == 4 and len(secs) > 4:
                idx = rng.choice(len(secs), size=4, replace=False)
                secs = [secs[i] for i in sorted(idx)]
            if not q and norb == 5 and len(secs) > 6:
                idx = rng.choice(len(secs), size=6, replace=False)
                secs = [secs[i] for i in sorted(idx)]
            for (na, nb) in secs:
                reps = (2 if q else 6)
                if kind == "multislater":
                    reps = 3 if q else 8
                if norb == 5 and kind in ("GCISD", "UCISD", "ucisd", "multislater"):
                    reps = 2
                for r in range(reps):
                    cases.append({"kind": kind, "norb": norb, "nelec": [na, nb], "s": int(rng.integers(1 << 30)),
                                  "rep": r, "group": "%s-%d-%d-%d" % (kind, norb, na, nb),
                                  "cost": 3 if kind in ("multislater", "GCISD") else 1})
    return cases


def run_case(case):
    import jax.numpy as jnp

    rng = np.random.default_rng(case["s"])
    kind, norb = case["kind"], case["norb"]
    na, nb = case["nelec"]
    F = fockref.get(norb)
    opts = {}
    if kind == "multislater":
        opts["ms_ref"] = ["random", "inverted", "aufbau", "closed"][case["rep"] % 4] if na == nb else ["random", "inverted", "aufbau"][case["rep"] % 3]
        opts["ms_extra_exc"] = int(rng.integers(0, 2))
        if norb >= 5:
            opts["ms_ndets"] = 12
    if kind in ("rhf", "uhf") and case["rep"] % 2 == 1:
        opts["complex_orbs"] = True   # these two kinds conjugate the trial orbitals consistently: complex orbitals are admissible
    t = trials.make(kind, norb, (na, nb), rng, **opts)
    trial, wd_ = t["trial"], t["wave_data"]
    psi = t["psi"]
    npsi = np.linalg.norm(psi)
    events = []
    cnt = {"single_u": 0, "single_r": 0, "batched": 0, "rdm": 0, "skipped_ill_conditioned": 0, "tiny_overlap": 0}
    key0 = "C01/%s" % kind
    if kind == "multislater":
        auf = all(t["ref"][0][i] == (1 if i < na else 0) for i in range(norb)) and all(
            t["ref"][1][i] == (1 if i < nb else 0) for i in range(norb))
        same = tuple(t["ref"][0]) == tuple(t["ref"][1])
        key0 += "/ref-%s/%s" % ("aufbau" if auf else "non-aufbau", "ref_up==ref_dn" if same else "ref_up!=ref_dn")
    nw = 6
    nontrivial = 0
    sample = {}
    # ----- single walker, unrestricted entry
    W = [trials.rand_walker(rng, norb, na, nb) for _ in range(nw)]
    refs = []
    for (wu, wd) in W:
        phi = F.det(wu, wd)
        refs.append((np.vdot(psi, phi), npsi * np.linalg.norm(phi), measure.cond_filter(kind, t, wu, wd)))
    if "u" in t["entries"]:
        for (wu, wd), (o_ref, nrm, cond) in zip(W, refs):
            if cond > 1e8:
                cnt["skipped_ill_conditioned"] += 1
                continue
            o = complex(trial._calc_overlap(jnp.array(wu), jnp.array(wd), wd_))
            e = judge("overlap/single-unrestricted", abs(o - o_ref) / nrm, 1e-12 * (10 + cond), key0 + "/single-u",
                      code=o, ref=o_ref, cond=cond)
            events.append(e)
            cnt["single_u"] += 1
            if abs(o_ref) >= 1e-6 * nrm:
                nontrivial += 1
            else:
                cnt["tiny_overlap"] += 1
            sample = {"entry": "u", "code": o, "ref": o_ref, "norm": nrm}
        # batched list evaluation, several n_batch, output in walker order
        good = [i for i, r in enumerate(refs) if r[2] <= 1e8]
        if len(good) == nw:
            wu_b = jnp.array(np.array([w[0] for w in W]))
            wd_b = jnp.array(np.array([w[1] for w in W]))
            for n_batch in ((1, 2, 3, 6) if case["rep"] == 0 else (int(rng.choice([1, 2, 3, 6])),)):
                tb = _with_batch(trial, n_batch)
                ob = np.asarray(tb.calc_overlap([wu_b, wd_b], wd_))
                r = max(abs(ob[i] - refs[i][0]) / refs[i][1] for i in range(nw))
                cmax = max(x[2] for x in refs)
                events.append(judge("overlap/batched-list", r, 1e-12 * (10 + cmax), key0 + "/batched-list", n_batch=n_batch))
                cnt["batched"] += 1
    # ----- restricted entry (walker = (norb, n_up) matrix; dn block = its first n_dn columns)
    restricted_ok = "r" in t["entries"] or kind in ("uhf", "ghf", "noci")
    if restricted_ok:
        Wr = [trials.rand_walker(rng, norb, na, nb)[0] for _ in range(nw)]
        refs_r = []
        for w in Wr:
            phi = F.det(w[:, :na], w[:, :nb])
            refs_r.append((np.vdot(psi, phi), npsi * np.linalg.norm(phi), measure.cond_filter(kind, t, w[:, :na], w[:, :nb])))
        for w, (o_ref, nrm, cond) in zip(Wr, refs_r):
            if cond > 1e8:
                cnt["skipped_ill_conditioned"] += 1
                continue
            o = complex(trial._calc_overlap_restricted(jnp.array(w), wd_))
            events.append(judge("overlap/single-restricted", abs(o - o_ref) / nrm, 1e-12 * (10 + cond), key0 + "/single-r",
                                code=o, ref=o_ref, cond=cond))
            cnt["single_r"] += 1
            if abs(o_ref) >= 1e-6 * nrm:
                nontrivial += 1
            if not sample:
                sample = {"entry": "r", "code": o, "ref": o_ref, "norm": nrm}
        if all(r[2] <= 1e8 for r in refs_r):
            wb = jnp.array(np.array(Wr))
            for n_batch in ((1, 2, 3, 6) if case["rep"] == 0 else (int(rng.choice([1, 2, 3, 6])),)):
                tb = _with_batch(trial, n_batch)
                ob = np.asarray(tb.calc_overlap(wb, wd_))
                r = max(abs(ob[i] - refs_r[i][0]) / refs_r[i][1] for i in range(nw))
                cmax = max(x[2] for x in refs_r)
                events.append(judge("overlap/batched-array", r, 1e-12 * (10 + cmax), key0 + "/batched-array", n_batch=n_batch))
                cnt["batched"] += 1
    # ----- 1-RDM of single-determinant and NOCI trials (orthonormal orbitals)
    if kind in ("rhf", "uhf", "ghf", "noci"):
        rng2 = np.random.default_rng(case["s"] + 7)
        # (rhf / uhf: complex orbitals in every other case; either index convention <a+_p a_q> / <a+_q a_p> is accepted below)
        t2 = trials.make(kind, norb, (na, nb), rng2, orthonormal=True, complex_orbs=bool(kind in ("rhf", "uhf") and case["rep"] % 2 == 1))
        ref = F.rdm1(t2["psi"])
        for name, fn in (("_calc_rdm1", t2["trial"]._calc_rdm1), ("get_rdm1", t2["trial"].get_rdm1)):
            got = np.asarray(fn(t2["wave_data"]))
            r = float(np.max(np.abs(got - ref)))
            r = min(r, float(np.max(np.abs(got - ref.transpose(0, 2, 1)))))  # real trial: symmetric anyway; complex trial: Hermitian, conventions differ by a transpose
            events.append(judge("rdm1/" + name, r, 1e-10, "C01/%s/rdm1" % kind, trace_up=float(np.trace(got[0]).real),
                                trace_dn=float(np.trace(got[1]).real)))
            cnt["rdm"] += 1
        if kind == "noci" and na >= 1 and norb > na:
            # a NOCI expansion with a nearly (not exactly) orthogonal pair of determinants: <h|g> ~ 1e-9, while <h|a+ a|g> stays O(1)
            ci_n, (da_n, db_n) = t2["wave_data"]["ci_coeffs_dets"]
            da_n, db_n, ci_n = np.array(da_n), np.array(db_n), np.array(ci_n)
            q_full = np.linalg.qr(np.hstack([da_n[0], rng2.normal(size=(norb, norb - na))]))[0]
            v_new = q_full[:, na] + 3e-9 * da_n[0][:, -1]
            da_n[1] = np.hstack([da_n[0][:, :-1], (v_new / np.linalg.norm(v_new))[:, None]])
            db_n[1] = db_n[0]
            wd_n = {"ci_coeffs_dets": [jnp.array(ci_n), [jnp.array(da_n), jnp.array(db_n)]]}
            psi_n = sum(ci_n[i] * F.det(da_n[i], db_n[i]) for i in range(len(ci_n)))
            ref_n = F.rdm1(psi_n)
            got_n = np.asarray(t2["trial"].get_rdm1(wd_n))
            r_n = min(float(np.max(np.abs(got_n - ref_n))), float(np.max(np.abs(got_n - ref_n.transpose(0, 2, 1)))))
            events.append(judge("rdm1/noci-with-a-nearly-orthogonal-pair", r_n, 1e-7, "C01/noci/rdm1-nearly-orthogonal-pair",
                                pair_overlap=float(abs(np.linalg.det(da_n[0].T @ da_n[1]) * np.linalg.det(db_n[0].T @ db_n[1])))))
            cnt["rdm"] += 1
        # history on ONE wave_data dict: read the 1-RDM, change the trial parameters in place, read it again
        rng3 = np.random.default_rng(case["s"] + 8)
        t3 = trials.make(kind, norb, (na, nb), rng3, orthonormal=True, complex_orbs=bool(kind in ("rhf", "uhf") and case["rep"] % 2 == 1))
        wd_hist = dict(t2["wave_data"])
        had_key = "rdm1" in wd_hist
        first = np.asarray(t2["trial"].get_rdm1(wd_hist))
        _ = t2["trial"].get_init_walkers(wd_hist, 2, restricted=False)
        for k_, v_ in t3["wave_data"].items():
            wd_hist[k_] = v_
        second = np.asarray(t2["trial"].get_rdm1(wd_hist))
        ref3 = F.rdm1(t3["psi"])
        events.append(judge("rdm1/follows-parameter-change", min(float(np.max(np.abs(second - ref3))), float(np.max(np.abs(second - ref3.transpose(0, 2, 1))))), 1e-10, "C01/%s/rdm1-after-parameter-change" % kind,
                            gained_rdm1_key=bool(("rdm1" in wd_hist) and not had_key)))
        cnt["rdm"] += 1
    return {"events": events, "nontrivial": nontrivial > 0, "sample": sample, "counters": cnt}


def _with_batch(trial, n_batch):
    import copy

    t = copy.copy(trial)
    t.n_batch = n_batch
    return t
