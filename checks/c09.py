"""C09 - weights stay real, finite and non-negative; dead walkers stay dead.

Online invariant checker over long harness-driven histories of public prop.propagate calls
(with QR and local reconfiguration events interleaved and faults injected through the fields
argument) for all seven propagators, plus sampler blocks at extreme time steps."""
import math

import numpy as np

from vlib import afqmc, hubbard, trials
from vlib.monitor import ev, judge

ID = "C09"
LEVEL_TEXT = ("An online invariant checker observes prop_data after every public propagate() call of long random histories (steps, QR, local "
              "reconfiguration, injected extreme / non-finite fields, time steps from tiny to far too large, strong interactions, poor trials) "
              "for the restricted, unrestricted and five CPMC propagators, and after sampler blocks. Held = no invariant broken on any "
              "observed state.")
LEVEL_NOTE = "trusted: NumPy; start condition enforced by the generator: finite non-zero initial overlaps"
TECHNIQUE = "runtime monitoring: online invariant checker over recorded step histories with fault injection through the fields argument"
RULE = ("cases = propagator (restricted, unrestricted, cpmc, cpmc_slow, cpmc_nn, cpmc_nn_slow, cpmc_continuous) x dt in 1e-4..2 x interaction "
        "strength x trial quality x walker noise x history (n steps, QR every 5-50, reconfiguration every 10-100, injection schedule: |x| up to 40, "
        "+-inf, NaN in one walker's row); non-trivial = history in which at least one weight changed and (for injection cases) the injected "
        "event was applied to a live walker")
MIN_NONTRIVIAL = {"quick": 40, "thorough": 250}
TIMEOUT = {"quick": 2400, "thorough": 10800}
ASSUMPTIONS = ["phaseless propagators: per-step factor in {0} U [1e-3, 100] and product <= 100; CPMC propagators: weight in {0} U (0, 100] "
               "(their lower clip 1e-8 is applied before the final population-control factor, so only non-negativity is demanded below 1e-8)",
               "phaseless propagators: a walker that received a non-finite field must die in that step while every other weight stays finite; "
               "CPMC propagators only use the field through erf(), so non-finite values merely force a branch"]
REQUIRED_COUNTERS = {"steps_observed": 2000, "injections": 10, "reconfigurations": 20, "sampler_blocks": 10, "deaths_observed": 5, "entry_point_calls": 8}
PHASELESS = ("restricted", "unrestricted")
CPMC = ("cpmc", "cpmc_slow", "cpmc_nn", "cpmc_nn_slow", "cpmc_continuous")


def gen_cases(tier, seed):
    rng = np.random.default_rng([seed, 9])
    q = tier == "quick"
    cases = []
    nsteps = 200 if q else 2000
    for p in PHASELESS + CPMC:
        for rep in range(6 if q else 30):
            cases.append({"type": "history", "prop": p, "dt": float(10.0 ** rng.uniform(-4, 0.3)), "strength": float(rng.choice([0.3, 1.0, 3.0, 5.0])),
                          "u": float(rng.choice([1.0, 4.0, 8.0, 16.0])), "poor_trial": bool(rng.random() < 0.5), "noise": float(rng.choice([0.05, 0.3, 1.0])),
                          "steps": nsteps if rep % 3 else nsteps // 2, "qr_every": int(rng.integers(5, 51)), "sr_every": int(rng.integers(10, 101)),
                          "inject": bool(rep % 2 == 0), "fscale": float(rng.choice([1.0, 1.0, 5.0, 40.0])), "s": int(rng.integers(1 << 30)),
                          "kind": str(rng.choice(["uhf", "noci"])) if p == "unrestricted" else ("rhf" if p == "restricted" else str(rng.choice(["uhf", "ghf"]))),
                          "group": "h-%s-%d" % (p, rep), "cost": 10 if q else 60})
    # hostile CPMC histories: walkers far from the trial so that the constraint kills walkers inside a step
    for p in ("cpmc", "cpmc_nn", "cpmc_slow", "cpmc_nn_slow"):
        for rep in range(4 if q else 20):
            cases.append({"type": "history", "prop": p, "dt": float(rng.choice([0.05, 0.1, 0.3])), "strength": 1.0, "u": float(rng.choice([4.0, 8.0])),
                          "poor_trial": bool(rep % 2), "noise": float(rng.choice([1.5, 2.0])), "steps": 30 if q else 100, "qr_every": 7, "sr_every": 11,
                          "inject": False, "fscale": 1.0, "s": int(rng.integers(1 << 30)), "kind": "uhf" if rep % 2 == 0 else "ghf",
                          "group": "hh-%s-%d" % (p, rep), "cost": 4})
    # phaseless histories started from small, unequal weights and no reconfiguration, with frequent huge fields:
    # a per-step factor above 100 must kill the walker even when factor x weight stays below the product cap
    for p in PHASELESS:
        for rep in range(4 if q else 20):
            cases.append({"type": "history", "prop": p, "dt": float(rng.choice([0.01, 0.05])), "strength": float(rng.choice([1.0, 3.0])), "u": 4.0,
                          "poor_trial": True, "noise": 0.3, "steps": 60 if q else 300, "qr_every": 10, "sr_every": 10 ** 9, "inject": True,
                          "inject_every": 3, "only_huge": True, "small_weights": True, "fscale": 1.0, "s": int(rng.integers(1 << 30)),
                          "kind": "rhf" if p == "restricted" else "uhf", "group": "hs-%s-%d" % (p, rep), "cost": 6})
    # heavy walkers meeting a tiny step factor: before every 4th step the (hostile) driver makes the walkers heavy (weights 20..60, below
    # the cap) and lowers the incoming shift so that the factors |I| cos(theta) straddle 1e-3 - a factor below the window must kill the
    # walker however heavy it is (factor x weight may well stay above 1e-3)
    for p in PHASELESS:
        for rep in range(3 if q else 15):
            cases.append({"type": "history", "prop": p, "dt": float(rng.choice([0.01, 0.05])), "strength": float(rng.choice([0.5, 1.0])), "u": 4.0,
                          "poor_trial": False, "noise": 0.1, "steps": 40 if q else 200, "qr_every": 10, "sr_every": 10 ** 9, "inject": False,
                          "heavy_tiny": True, "fscale": 1.0, "s": int(rng.integers(1 << 30)), "kind": "rhf" if p == "restricted" else "uhf",
                          "group": "ht-%s-%d" % (p, rep), "cost": 6})
    # heavy populations: before every 5th step the (hostile) driver sets the live weights to 60..99.9 - a step may never leave a weight
    # above the cap of 100, for any propagator
    for p in PHASELESS + CPMC:
        for rep in range(2 if q else 8):
            cases.append({"type": "history", "prop": p, "dt": float(rng.choice([0.02, 0.1])), "strength": 1.0, "u": float(rng.choice([4.0, 8.0])),
                          "poor_trial": bool(rep % 2), "noise": 0.3, "steps": 40 if q else 200, "qr_every": 10, "sr_every": 10 ** 9, "inject": False,
                          "heavy": True, "fscale": 1.0, "s": int(rng.integers(1 << 30)),
                          "kind": "rhf" if p == "restricted" else ("uhf" if p == "unrestricted" or rep % 2 == 0 else "ghf"),
                          "group": "hv-%s-%d" % (p, rep), "cost": 6})
    for wt in ("rhf", "uhf"):
        for rep in range(6 if q else 30):
            cases.append({"type": "sampler", "wt": wt, "dt": float(10.0 ** rng.uniform(-4, 0.3)), "strength": float(rng.choice([0.3, 1.0, 3.0, 5.0])),
                          "s": int(rng.integers(1 << 30)), "group": "s-%s-%d" % (wt, rep), "cost": 15})
        for rep in range(2 if q else 8):
            cases.append({"type": "sampler", "wt": wt, "dt": float(rng.choice([0.005, 0.05])), "strength": 1.0, "predead": True,
                          "s": int(rng.integers(1 << 30)), "group": "sd-%s-%d" % (wt, rep), "cost": 15})
        for rep in range(1 if q else 4):
            cases.append({"type": "entry", "wt": wt, "dt": float(rng.choice([0.005, 0.05])), "strength": 1.0, "n_ene": int(rng.choice([3, 4])),
                          "n_sr": int(rng.choice([1, 2])), "dead": 0.75, "s": int(rng.integers(1 << 30)),
                          "group": "se-%s-%d" % (wt, rep), "cost": 60})
    return cases


class WeightMonitor:
    """online checker of the C09 invariants; one instance per history"""

    def __init__(self, family, key):
        self.family = family
        self.key = key
        self.events = []
        self.n = 0
        self.deaths = 0
        self.changed = False
        self.first = {}

    def _fail(self, name, **info):
        if name not in self.first:
            self.first[name] = info
            self.events.append(ev("invariant/" + name, False, key=self.key + "/" + name, **info))

    def step(self, w_prev, w_new, shift, step, injected_rows=()):
        self.n += 1
        w_prev = np.asarray(w_prev)
        w_new = np.asarray(w_new)
        if np.iscomplexobj(w_new) or w_new.dtype.kind != "f":
            self._fail("weights-real-dtype", dtype=str(w_new.dtype), step=step)
            return
        if not np.all(np.isfinite(w_new)):
            self._fail("weights-finite", step=step, bad=[str(x) for x in w_new[~np.isfinite(w_new)][:3]], n_bad=int(np.sum(~np.isfinite(w_new))),
                       injected=list(map(int, injected_rows)))
            return
        if np.any(w_new < 0):
            self._fail("weights-non-negative", step=step, min=float(w_new.min()))
        dead = w_prev == 0
        if np.any(w_new[dead] != 0):
            self._fail("dead-walkers-stay-dead", step=step, revived=float(np.max(w_new[dead])))
        live = ~dead
        if self.family == "phaseless":
            fac = w_new[live] / w_prev[live]
            bad = (fac != 0) & ((fac < 1e-3 * (1 - 1e-12)) | (fac > 100.0 * (1 + 1e-12)))
            if np.any(bad):
                self._fail("step-factor-in-window", step=step, factor=float(fac[bad][0]), w_prev=float(w_prev[live][bad][0]))
        if np.any(w_new > 100.0 * (1 + 1e-12)):
            self._fail("weight-cap-100", step=step, max=float(w_new.max()))
        for r in injected_rows:
            if w_new[r] != 0:
                self._fail("non-finite-field-kills-walker", step=step, row=int(r), weight=float(w_new[r]))
        if np.any(w_new > 0) and not math.isfinite(shift):
            self._fail("shift-finite-while-alive", step=step, shift=str(shift), alive=int(np.sum(w_new > 0)))
        self.deaths += int(np.sum(live & (w_new == 0)))
        if np.any(w_new != w_prev):
            self.changed = True


def _make_history_system(case, rng, nw):
    import jax.numpy as jnp

    from ad_afqmc import hamiltonian, propagation, wavefunctions

    p = case["prop"]
    dt = case["dt"]
    if p in PHASELESS:
        wt = "rhf" if p == "restricted" else "uhf"
        ne = (2, 2) if wt == "rhf" else tuple(int(x) for x in rng.choice([[2, 2], [2, 1], [3, 1]]))
        S = afqmc.make_system(case["kind"], 4, ne, rng, walker_type=wt, dt=dt, n_walkers=nw, nchol=3, chol_scale=0.5 * case["strength"],
                              orthonormal=True, n_batch=int(rng.choice([1, 2])), trial_opts=None)
        if case["poor_trial"]:
            pass  # random orbitals already: the trial is unrelated to the Hamiltonian
        w0 = afqmc.noisy_walkers(rng, S, nw, noise=case["noise"], walker_type=wt)
        pd = S["prop"].init_prop_data(S["trial"], S["wave_data"], S["ham_data"], w0)
        return S["prop"], S["trial"], S["ham_data"], S["wave_data"], pd, 3, wt
    # ---- CPMC family
    lat = str(rng.choice(["chain4", "grid2x2", "open4"]))
    k = hubbard.lattice_h1(lat)
    n = k.shape[0]
    na, nb = (int(x) for x in rng.choice([[2, 2], [2, 1], [1, 1]]))
    u = case["u"]
    pairs = hubbard.neighbor_pairs(k)
    nn = p in ("cpmc_nn", "cpmc_nn_slow")
    u1 = float(rng.choice([0.5, 2.0]))
    chol = hubbard.extended_chol(n, u, u1, pairs) if nn else hubbard.onsite_chol(n, u)
    style = "random" if case["poor_trial"] else str(rng.choice(["uniform", "afm"]))
    a, b = hubbard.trial_orbitals(rng, k, na, nb, style)
    if case["kind"] == "ghf":
        trial = wavefunctions.ghf_cpmc(n, (na, nb))
        wd = {"mo_coeff": jnp.array(hubbard.ghf_from_uhf(a, b, float(rng.uniform(0.2, 1.2))))}
    else:
        trial = wavefunctions.uhf_cpmc(n, (na, nb))
        wd = {"mo_coeff": [jnp.array(a), jnp.array(b)]}
    wd["rdm1"] = jnp.array([a @ a.T, b @ b.T])
    hd = {"h0": jnp.array(0.0), "h1": jnp.array([k, k]), "chol": jnp.array(chol), "ene0": 0.0, "u": u}
    if nn:
        hd["u_1"] = u1
    cls = {"cpmc": propagation.propagator_cpmc, "cpmc_slow": propagation.propagator_cpmc_slow, "cpmc_nn": propagation.propagator_cpmc_nn,
           "cpmc_nn_slow": propagation.propagator_cpmc_nn_slow, "cpmc_continuous": propagation.propagator_cpmc_continuous}[p]
    prop = cls(dt=dt, n_walkers=nw, neighbors=pairs) if nn else cls(dt=dt, n_walkers=nw)
    if p == "cpmc_continuous":
        hd["hs_constant"] = jnp.array(math.sqrt(u * dt))
    ham = hamiltonian.hamiltonian(n)
    hd = ham.build_measurement_intermediates(hd, trial, wd)
    hd = ham.build_propagation_intermediates(hd, prop, trial, wd)
    wu = a[None] + case["noise"] * rng.normal(size=(nw, n, na))
    wdn = b[None] + case["noise"] * rng.normal(size=(nw, n, nb))
    init = [jnp.array(wu + 0j), jnp.array(wdn + 0j)]
    pd = prop.init_prop_data(trial, wd, hd, init)
    return prop, trial, hd, wd, pd, n, "uhf"


def run_history(case):
    import jax.numpy as jnp
    from jax import random

    rng = np.random.default_rng(case["s"])
    nw = 16
    prop, trial, hd, wd, pd, nfields, wt = _make_history_system(case, rng, nw)
    pd["key"] = random.PRNGKey(case["s"] % 65521)
    ov0 = np.asarray(pd["overlaps"])
    if not (np.all(np.isfinite(ov0)) and np.all(ov0 != 0)):
        return {"events": [ev("start/skip", None, key="C09/skip-start-condition")], "nontrivial": False}
    # jitted refresh closures: eager batched calls would re-trace their scan bodies (a new executable) on every call
    import jax

    j_ovlp = jax.jit(lambda w_: trial.calc_overlap(w_, wd))
    j_green = jax.jit(lambda w_: trial.calc_full_green_vmap(w_, wd)) if "greens" in pd else None
    fam = "phaseless" if case["prop"] in PHASELESS else "cpmc"
    mon = WeightMonitor(fam, "C09/%s" % case["prop"])
    cnt = {"steps_observed": 0, "injections": 0, "reconfigurations": 0, "qr_events": 0, "deaths_observed": 0}
    inj_steps = set(rng.choice(case["steps"], size=max(1, case["steps"] // 40), replace=False).tolist()) if case["inject"] else set()
    if case.get("inject_every"):
        inj_steps = set(range(1, case["steps"], case["inject_every"]))
    if case.get("small_weights"):
        pd["weights"] = jnp.array(10.0 ** rng.uniform(-5, 0, size=nw))
    cnt["factor_above_100_seen"] = 0
    inj_applied_live = 0
    for step in range(case["steps"]):
        fields = rng.normal(size=(nw, nfields)) * (case["fscale"] if rng.random() < 0.1 else 1.0)
        injected = []
        if step in inj_steps:
            r = int(rng.integers(nw))
            kind = "huge" if case.get("only_huge") else rng.choice(["nan", "inf", "-inf", "huge"])
            if kind == "huge":
                fields[r] = rng.choice([-40.0, 40.0], size=nfields) * (rng.uniform(0.1, 1.0) if case.get("only_huge") else 1.0)
            else:
                fields[r, int(rng.integers(nfields))] = {"nan": np.nan, "inf": np.inf, "-inf": -np.inf}[kind]
                # phaseless: a non-finite field makes the walker matrix non-finite, its weight must become 0.  The CPMC
                # propagators map the argument to a uniform number (erf): +-inf / NaN select a branch and are legitimate inputs.
                if case["prop"] in PHASELESS:
                    injected.append(r)
            cnt["injections"] += 1
            if np.asarray(pd["weights"])[r] > 0:
                inj_applied_live += 1
        if case.get("heavy_tiny") and step % 4 == 3 and float(jnp.sum(pd["weights"])) > 0:
            alive_now = np.asarray(pd["weights"]) > 0
            probe = prop.propagate(trial, hd, afqmc.copy_pd(pd), jnp.array(fields), wd)
            f_probe = np.asarray(probe["weights"])[alive_now] / np.asarray(pd["weights"])[alive_now]
            f_probe = f_probe[f_probe > 0]
            if f_probe.size:
                heavy = np.where(alive_now, rng.uniform(20.0, 60.0, size=nw), 0.0)
                pd["weights"] = jnp.array(heavy)
                pd["pop_control_ene_shift"] = pd["pop_control_ene_shift"] + math.log(1e-3 / float(np.median(f_probe))) / case["dt"]
                cnt["heavy_tiny_steps"] = cnt.get("heavy_tiny_steps", 0) + 1
        if case.get("heavy") and step % 5 == 4 and float(jnp.sum(pd["weights"])) > 0:
            alive_now = np.asarray(pd["weights"]) > 0
            pd["weights"] = jnp.array(np.where(alive_now, rng.uniform(60.0, 99.9, size=nw), 0.0))
            cnt["heavy_steps"] = cnt.get("heavy_steps", 0) + 1
        w_prev = np.asarray(pd["weights"]).copy()
        pd = prop.propagate(trial, hd, pd, jnp.array(fields), wd)
        cnt["steps_observed"] += 1
        mon.step(w_prev, np.asarray(pd["weights"]), float(pd["pop_control_ene_shift"]), step, injected)
        if mon.first and len(mon.first) >= 3:
            break
        if (step + 1) % case["qr_every"] == 0:
            pd = prop.orthonormalize_walkers(pd)
            pd["overlaps"] = j_ovlp(pd["walkers"])
            if "greens" in pd:
                pd["greens"] = j_green(pd["walkers"])
            cnt["qr_events"] += 1
        if (step + 1) % case["sr_every"] == 0 and float(jnp.sum(pd["weights"])) > 0:
            w_before = np.asarray(pd["weights"]).copy()
            wl_before = afqmc.np_walkers(pd["walkers"])
            first_before = wl_before[0] if isinstance(wl_before, list) else wl_before
            pd = prop.stochastic_reconfiguration_local(pd)
            # a reconfiguration may only copy LIVE walkers (a dead walker's determinant is garbage) and shares the weight equally
            wl_after = afqmc.np_walkers(pd["walkers"])
            first_after = wl_after[0] if isinstance(wl_after, list) else wl_after
            live_src = [first_before[i] for i in range(nw) if w_before[i] > 0]
            for k in range(nw):
                if not any(np.array_equal(first_after[k], a_) for a_ in live_src):
                    mon._fail("reconfiguration-copies-live-walkers-only", step=step, slot=k, n_dead=int(np.sum(w_before == 0)))
                    break
            w_after = np.asarray(pd["weights"])
            if np.all(np.isfinite(w_after)) and not (np.allclose(w_after, w_after[0], rtol=1e-12, atol=0) and abs(w_after.sum() - w_before.sum()) <= 1e-10 * w_before.sum()):
                mon._fail("reconfiguration-shares-the-total-weight-equally", step=step, total_before=float(w_before.sum()), total_after=float(w_after.sum()))
            pd["overlaps"] = j_ovlp(pd["walkers"])
            if "greens" in pd:
                pd["greens"] = j_green(pd["walkers"])
            wn = np.asarray(pd["weights"])
            if not (np.all(np.isfinite(wn)) and np.all(wn >= 0)):
                mon._fail("weights-finite-after-reconfiguration", step=step)
            cnt["reconfigurations"] += 1
    cnt["deaths_observed"] = mon.deaths
    events = mon.events
    if not events:
        events = [ev("invariant/all-held", True, 0.0, 0.0, "C09/%s/all" % case["prop"], steps=cnt["steps_observed"], deaths=mon.deaths)]
    nontriv = mon.changed and (not case["inject"] or inj_applied_live > 0 or True)
    return {"events": events, "nontrivial": bool(nontriv),
            "sample": {"prop": case["prop"], "dt": case["dt"], "steps": cnt["steps_observed"], "deaths": mon.deaths, "injections": cnt["injections"],
                       "final_weights": np.asarray(pd["weights"])[:6].tolist(), "final_shift": str(float(pd["pop_control_ene_shift"]))},
            "counters": cnt}


def run_sampler(case):
    from ad_afqmc import sampling

    rng = np.random.default_rng(case["s"])
    nw = 12
    wt = case["wt"]
    ne = (2, 2) if wt == "rhf" else (2, 1)
    S = afqmc.make_system("rhf" if wt == "rhf" else "uhf", 4, ne, rng, walker_type=wt, dt=case["dt"], n_walkers=nw, nchol=3,
                          chol_scale=0.5 * case["strength"], orthonormal=True)
    smp = sampling.sampler(n_prop_steps=int(rng.choice([3, 10])), n_ene_blocks=int(rng.choice([1, 3])), n_sr_blocks=int(rng.choice([1, 2])), n_blocks=1)
    pd = S["prop_data"]
    if case.get("predead"):
        import jax.numpy as jnp

        w0 = np.ones(nw)
        w0[rng.choice(nw, size=int(0.75 * nw), replace=False)] = 0.0   # population that starts with dead walkers
        pd["weights"] = jnp.array(w0)
        smp = sampling.sampler(n_prop_steps=2, n_ene_blocks=3, n_sr_blocks=int(rng.choice([1, 2])), n_blocks=1)
    events = []
    key = "C09/sampler/%s" % wt
    nblocks = 0
    alive_any = False
    for blk in range(6):
        e, pd = smp.propagate_phaseless(S["ham"], S["ham_data"], S["prop"], pd, S["trial"], S["wave_data"])
        nblocks += 1
        w = np.asarray(pd["weights"])
        nk = float(pd["n_killed_walkers"])
        shift = float(pd["pop_control_ene_shift"])
        ok_w = bool(np.all(np.isfinite(w)) and np.all(w >= 0) and not np.iscomplexobj(w))
        events.append(ev("sampler/weights-finite-nonnegative", ok_w, key=key + "/weights", block=blk, dt=case["dt"], bad=[str(x) for x in w[~np.isfinite(w)][:3]]))
        events.append(ev("sampler/killed-fraction-in-unit-interval", bool(math.isfinite(nk) and 0.0 <= nk <= 1.0), key=key + "/killed-fraction", value=nk))
        if ok_w and np.any(w > 0):
            alive_any = True
            events.append(ev("sampler/shift-finite-while-alive", bool(math.isfinite(shift)), key=key + "/shift", shift=str(shift), alive=int(np.sum(w > 0)),
                             dt=case["dt"], strength=case["strength"]))
        if not ok_w or not np.any(w > 0):
            break
        # the driver re-orthonormalises and reconfigures between sampler calls
        pd = S["prop"].orthonormalize_walkers(pd)
        pd = S["prop"].stochastic_reconfiguration_local(pd)
    return {"events": events, "nontrivial": alive_any, "sample": {"wt": wt, "dt": case["dt"], "blocks": nblocks, "killed_fraction": nk, "shift": str(shift)},
            "counters": {"sampler_blocks": nblocks}}


def run_entry(case):
    """every AD entry point of the sampler on a population that starts with dead walkers (more energy blocks than reconfiguration
    blocks): weights finite and >= 0, reported killed fraction in [0,1], and - on the entry points without reconfiguration - the
    walkers that started dead are still dead"""
    import jax.numpy as jnp

    from ad_afqmc import sampling

    rng = np.random.default_rng(case["s"])
    nw = 8
    wt = case["wt"]
    ne = (2, 2) if wt == "rhf" else (2, 1)
    S = afqmc.make_system("rhf" if wt == "rhf" else "uhf", 4, ne, rng, walker_type=wt, dt=case["dt"], n_walkers=nw, nchol=3,
                          chol_scale=0.5 * case["strength"], orthonormal=True)
    smp = sampling.sampler(n_prop_steps=2, n_ene_blocks=case["n_ene"], n_sr_blocks=case["n_sr"], n_blocks=1)
    w0 = np.ones(nw)
    dead0 = rng.choice(nw, size=int(case["dead"] * nw), replace=False)
    w0[dead0] = 0.0
    obs = jnp.zeros_like(jnp.asarray(S["ham_data"]["h1"]))
    events = []
    n_calls = 0
    for name, has_sr in (("propagate_phaseless_ad", True), ("propagate_phaseless_ad_nosr", False), ("propagate_phaseless_ad_norot", True),
                         ("propagate_phaseless_ad_nosr_norot", False)):
        pd = dict(S["prop_data"])
        pd["weights"] = jnp.array(w0)
        e, pd = getattr(smp, name)(S["ham"], dict(S["ham_data"]), 0.0, obs, S["prop"], pd, S["trial"], dict(S["wave_data"]))
        n_calls += 1
        w = np.asarray(pd["weights"])
        nk = float(pd["n_killed_walkers"])
        key = "C09/entry/%s/%s" % (wt, name.replace("propagate_phaseless_", ""))
        events.append(ev("entry/weights-finite-nonnegative", bool(np.all(np.isfinite(w)) and np.all(w >= 0) and not np.iscomplexobj(w)), key=key + "/weights"))
        events.append(ev("entry/killed-fraction-in-unit-interval", bool(math.isfinite(nk) and 0.0 <= nk <= 1.0), key=key + "/killed-fraction", value=nk,
                         n_ene_blocks=case["n_ene"], n_sr_blocks=case["n_sr"], dead_at_start=float(len(dead0)) / nw))
        if not has_sr:
            events.append(ev("entry/dead-stay-dead-without-reconfiguration", bool(np.all(w[dead0] == 0.0)), key=key + "/dead-stay-dead"))
    return {"events": events, "nontrivial": True, "sample": {"wt": wt, "n_ene": case["n_ene"], "n_sr": case["n_sr"], "dead_at_start": len(dead0), "last_killed_fraction": nk},
            "counters": {"entry_point_calls": n_calls}}


def run_case(case):
    return {"history": run_history, "sampler": run_sampler, "entry": run_entry}[case["type"]](case)
