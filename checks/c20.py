"""C20 - lattices are consistent graphs that survive construction and pytree round trips."""
import dataclasses
import itertools

import numpy as np

from vlib.monitor import ev, judge

ID = "C20"
EXHAUSTIVE = True
LEVEL_TEXT = ("Finite enumeration of every lattice within the stated side-length bounds; each instance is constructed by the real "
              "constructor and its site list, numbering, neighbour function, adjacency matrix, hash/equality and pytree round trips "
              "(direct and through a jitted function) are checked by class invariants (icontract) and against an explicitly built "
              "graph. Exhaustive within the bounds, nothing claimed beyond them.")
LEVEL_NOTE = "trusted: NumPy, icontract; bounds: chains 2..8 (12 thorough), grids/triangular sides 2..6 (7), cubic 2..4"
TECHNIQUE = "runtime monitoring: class-invariant contracts + explicit reference graph over an exhaustively enumerated finite family"
RULE = ("all chains n=2..8, all rectangular grids and triangular grids (periodic and open_x) with sides 2..6 including l_x != l_y, all "
        "cubic grids with sides 2..4 (quick); larger bounds in thorough; non-trivial = constructed or refused instance with >= 2 sites; "
        "distinct = (class, sides, boundary)")
MIN_NONTRIVIAL = {"quick": 100, "thorough": 200}
TIMEOUT = {"quick": 900, "thorough": 3600}
ASSUMPTIONS = ["default-constructed lattices (only side lengths and the open_x flag vary) plus one non-default hop_signs/coord_num instance per class for the round trip",
               "cubic lattice has no adjacency method: its adjacency is derived from get_nearest_neighbors"]
REQUIRED_COUNTERS = {"constructed": 100, "roundtrips": 100, "invariant_evaluations": 100}


def gen_cases(tier, seed):
    q = tier == "quick"
    cases = []
    for n in range(2, 9 if q else 25):
        cases.append({"cls": "chain", "dims": [n], "open": False})
    top = 7 if q else 10
    for lx in range(2, top):
        for ly in range(2, top):
            cases.append({"cls": "grid", "dims": [lx, ly], "open": False})
            cases.append({"cls": "tri", "dims": [lx, ly], "open": False})
            cases.append({"cls": "tri", "dims": [lx, ly], "open": True})
    for lx, ly, lz in itertools.product(range(2, 5 if q else 6), repeat=3):
        cases.append({"cls": "cubic", "dims": [lx, ly, lz], "open": False})
    for i, c in enumerate(cases):
        c["group"] = "g%d" % (i % 16)
    return cases


def construct(case, **kw):
    from ad_afqmc import lattices as L

    d = case["dims"]
    if case["cls"] == "chain":
        return L.one_dimensional_chain(d[0], **kw)
    if case["cls"] == "grid":
        return L.two_dimensional_grid(d[0], d[1], **kw)
    if case["cls"] == "tri":
        return L.triangular_grid(d[0], d[1], open_x=case["open"], **kw)
    return L.three_dimensional_grid(d[0], d[1], d[2], **kw)


def ref_graph(case):
    """Explicit neighbour sets by coordinates (independent of the library)."""
    d = case["dims"]
    cls = case["cls"]
    nb = {}
    if cls == "chain":
        n = d[0]
        for i in range(n):
            nb[(i,)] = {((i - 1) % n,), ((i + 1) % n,)}
        sites = [(i,) for i in range(n)]
    elif cls == "grid":
        lx, ly = d
        sites = [(y, x) for y in range(ly) for x in range(lx)]
        for (y, x) in sites:
            nb[(y, x)] = {(y, (x + 1) % lx), (y, (x - 1) % lx), ((y + 1) % ly, x), ((y - 1) % ly, x)}
    elif cls == "tri":
        lx, ly = d  # lx rows (height), ly columns (width); site = (row, col)
        sites = [(r, c) for r in range(lx) for c in range(ly)]
        for (r, c) in sites:
            if not case["open"]:
                s = {(r, (c + 1) % ly), (r, (c - 1) % ly), ((r + 1) % lx, c), ((r - 1) % lx, c),
                     ((r + 1) % lx, (c + 1) % ly), ((r - 1) % lx, (c - 1) % ly)}
            else:
                s = {(r, c + 1), (r, c - 1), ((r + 1) % lx, c), ((r - 1) % lx, c)}
                if r % 2 == 1:
                    s |= {((r + 1) % lx, c + 1), ((r - 1) % lx, c + 1)}
                else:
                    s |= {((r + 1) % lx, c - 1), ((r - 1) % lx, c - 1)}
                s = {(a, b) for (a, b) in s if 0 <= b < ly}
            nb[(r, c)] = s
    else:
        lx, ly, lz = d
        sites = [(z, y, x) for z in range(lz) for y in range(ly) for x in range(lx)]
        for (z, y, x) in sites:
            nb[(z, y, x)] = {(z, (y + 1) % ly, x), (z, (y - 1) % ly, x), ((z + 1) % lz, y, x), ((z - 1) % lz, y, x),
                             (z, y, (x + 1) % lx), (z, y, (x - 1) % lx)}
    return sites, nb


def run_case(case):
    import icontract
    import jax

    events = []
    cnt = {"constructed": 0, "roundtrips": 0, "invariant_evaluations": 0}
    key = "C20/%s%s" % (case["cls"], "-open" if case["open"] else "")
    dims = case["dims"]
    min_side = min(dims)
    # ---- construction
    try:
        lat = construct(case)
    except Exception as exc:
        events.append(ev("construct", False, key=key + "/constructor", exc=repr(exc)[:200], dims=dims))
        return {"events": events, "nontrivial": True, "sample": {"dims": dims, "constructor": repr(exc)[:100]}, "counters": cnt}
    cnt["constructed"] = 1
    events.append(ev("construct", True, key=key + "/constructor"))
    _, nb_ref = ref_graph(case)
    n = int(np.prod(dims))
    sites_ref = [tuple(int(v) for v in s_) for s_ in lat.sites] if lat.sites is not None else []

    # ---- class invariants as icontract conditions evaluated on the live object
    evals = {"n": 0}

    def sites_numbering_inverse(self):
        evals["n"] += 1
        return (self.sites is not None and len(self.sites) == n
                and all(int(self.get_site_num(s)) == i for i, s in enumerate(self.sites))
                and len(set(map(tuple, self.sites))) == n)

    def n_sites_matches(self):
        evals["n"] += 1
        return self.n_sites == n and int(np.prod(self.shape)) == n

    class Broken(Exception):
        pass

    for cond in (sites_numbering_inverse, n_sites_matches):
        try:
            chk = icontract.require(lambda self, cond=cond: cond(self), error=lambda self: Broken(cond.__name__))

            @chk
            def probe(self):
                return True

            probe(lat)
            ok = True
        except Broken:
            ok = False
        events.append(ev("invariant/" + cond.__name__, ok, key=key + "/" + cond.__name__, dims=dims))
    cnt["invariant_evaluations"] = evals["n"]
    if len(sites_ref) != n or len(set(sites_ref)) != n:
        events.append(ev("sites/count", False, key=key + "/site-count", got=len(sites_ref), want=n))
        return {"events": events, "nontrivial": True, "sample": {"dims": dims}, "counters": cnt}
    extent = [max(t[k] for t in sites_ref) + 1 for k in range(len(sites_ref[0]))]

    # ---- neighbour relation
    lib_nb = {}
    for s in lat.sites:
        arr = np.asarray(lat.get_nearest_neighbors(tuple(s)))
        lib_nb[tuple(s)] = [tuple(int(v) for v in row) for row in arr]
    in_range = lambda t: all(0 <= t[k] < lat.shape[::1][k] if False else True for k in range(len(t)))
    siteset = set(sites_ref)
    nb_lib_sets = {s: {t for t in lib_nb[s] if t in siteset} for s in sites_ref}
    if not case["open"]:
        sym = all((s in nb_lib_sets[t]) for s in sites_ref for t in nb_lib_sets[s])
        events.append(ev("neighbours/symmetric", bool(sym), key=key + "/neighbours-symmetric"))
        if min_side >= 3:
            irr = all(s not in nb_lib_sets[s] for s in sites_ref)
            events.append(ev("neighbours/irreflexive", bool(irr), key=key + "/neighbours-irreflexive"))
        if case["cls"] in ("chain", "grid", "cubic"):
            # "nearest": exactly one coordinate differs, by +-1 modulo the extent of that coordinate - and all of those
            def unit(s_, t_):
                diff = [(a - b) % L for a, b, L in zip(s_, t_, extent)]
                nz = [(d, L) for d, L in zip(diff, extent) if d != 0]
                return len(nz) == 1 and (nz[0][0] == 1 or nz[0][0] == nz[0][1] - 1)

            all_unit = all(unit(s_, t_) for s_ in sites_ref for t_ in nb_lib_sets[s_] if t_ != s_)
            complete = all(sum(1 for t_ in sites_ref if t_ != s_ and unit(s_, t_)) == len(nb_lib_sets[s_] - {s_}) for s_ in sites_ref)
            events.append(ev("neighbours/unit-torus-distance", bool(all_unit and complete), key=key + "/neighbours-unit-distance"))
    # ---- adjacency
    if hasattr(lat, "create_adjacency_matrix"):
        A = np.asarray(lat.create_adjacency_matrix())
    else:
        A = np.zeros((n, n), dtype=int)
        for i, s in enumerate(sites_ref):
            for t in nb_lib_sets[s]:
                j = int(lat.get_site_num(t))
                A[i, j] = 1
                A[j, i] = 1
    Aref = np.zeros((n, n), dtype=int)  # adjacency implied by the library's own neighbour function and numbering
    for i, s in enumerate(sites_ref):
        for t in nb_lib_sets[s]:
            j = sites_ref.index(t)
            Aref[i, j] = 1
            Aref[j, i] = 1
    events.append(ev("adjacency/symmetric", bool(np.array_equal(A, A.T)), key=key + "/adjacency-symmetric"))
    if min_side >= 3 or case["cls"] == "chain" and dims[0] >= 3:
        events.append(ev("adjacency/zero-diagonal", bool(np.all(np.diag(A) == 0)), key=key + "/adjacency-diagonal"))
    events.append(ev("adjacency/consistent-with-neighbours", bool(np.array_equal(A, Aref)), key=key + "/adjacency-vs-neighbours",
                     diff=int(np.sum(A != Aref))))
    deg = A.sum(axis=1) - np.diag(A)
    if not case["open"] and min_side >= 3:
        events.append(ev("adjacency/regular", bool(np.all(deg == lat.coord_num)), key=key + "/degree-regular",
                         degrees=sorted(set(deg.tolist())), coord=lat.coord_num))
    if case["open"] and dims[0] % 2 == 0:
        events.append(ev("adjacency/degree-bounded", bool(np.all(deg <= lat.coord_num)), key=key + "/degree-bounded",
                         maxdeg=int(deg.max())))
    # ---- hash / equality / round trips
    variants = [("default", lat)]
    try:
        extra = {"chain": {"hop_signs": (2.0, -3.0), "coord_num": 3}, "grid": {"hop_signs": (1.0, 2.0, 3.0, 4.0), "coord_num": 5},
                 "tri": {"coord_num": 7}, "cubic": {"coord_num": 7}}[case["cls"]]
        variants.append(("non-default", construct(case, **extra)))
    except Exception as exc:
        events.append(ev("construct-nondefault", False, key=key + "/constructor-nondefault", exc=repr(exc)[:200]))
    for vname, obj in variants:
        same = construct(case) if vname == "default" else None
        if same is not None:
            events.append(ev("hash/equal-objects", bool(hash(same) == hash(obj) and same == obj), key=key + "/hash-eq"))
        for how in ("tree", "jit"):
            try:
                if how == "tree":
                    leaves, td = jax.tree_util.tree_flatten(obj)
                    back = jax.tree_util.tree_unflatten(td, leaves)
                else:
                    back = jax.jit(lambda l: l)(obj)
            except Exception as exc:
                events.append(ev("roundtrip/" + how, False, key=key + "/roundtrip-exception", exc=repr(exc)[:200], variant=vname))
                continue
            cnt["roundtrips"] += 1
            bad = [f.name for f in dataclasses.fields(obj) if getattr(obj, f.name) != getattr(back, f.name)]
            events.append(ev("roundtrip/fields-%s" % how, not bad, key=key + "/roundtrip-fields", changed=bad, variant=vname))
            events.append(ev("roundtrip/hash-%s" % how, bool(hash(back) == hash(obj)), key=key + "/roundtrip-hash", variant=vname))
            if hasattr(obj, "create_adjacency_matrix"):
                events.append(ev("roundtrip/adjacency-%s" % how, bool(np.array_equal(np.asarray(back.create_adjacency_matrix()), np.asarray(obj.create_adjacency_matrix()))),
                                 key=key + "/roundtrip-adjacency", variant=vname))
    # ---- history: a caller edits the matrix it was handed (hopping amplitudes, chemical potential); later requests - on this object, on an
    # equal fresh one, on its round trip - must still return the lattice's graph
    if hasattr(lat, "create_adjacency_matrix"):
        first = lat.create_adjacency_matrix()
        keep = np.array(np.asarray(first), copy=True)
        if isinstance(first, np.ndarray) and first.flags.writeable:
            first *= -2
            np.fill_diagonal(first, 4)
            again = [("same-object", lat), ("equal-fresh-object", construct(case))]
            try:
                leaves_, td_ = jax.tree_util.tree_flatten(lat)
                again.append(("round-trip", jax.tree_util.tree_unflatten(td_, leaves_)))
            except Exception:
                pass
            for nm_, obj_ in again:
                events.append(ev("adjacency/unaffected-by-edits-of-an-earlier-result", bool(np.array_equal(np.asarray(obj_.create_adjacency_matrix()), keep)),
                                 key=key + "/adjacency-aliasing", which=nm_))
    # ---- equality must see every attribute: objects that differ in one attribute are different objects, and when lattices are
    # used as static (hashed) arguments of a jitted function each one gets its own trace
    others = [o for (v, o) in variants if v == "non-default"]
    if case["cls"] == "tri":
        flipped = dict(case)
        flipped["open"] = not case["open"]
        try:
            others.append(construct(flipped))
        except Exception:
            pass
    for other in others:
        differs = [f.name for f in dataclasses.fields(lat) if getattr(lat, f.name) != getattr(other, f.name)]
        if differs:
            events.append(ev("equality/distinguishes-attributes", bool(lat != other and not (lat == other)), key=key + "/eq-distinguishes", differing=differs))
            if hasattr(lat, "create_adjacency_matrix"):
                try:
                    def _adj_at_trace_time(l_):
                        with jax.ensure_compile_time_eval():   # the lattice is static: its graph is a compile-time constant of the trace
                            return jax.numpy.asarray(np.asarray(l_.create_adjacency_matrix()))

                    f_static = jax.jit(_adj_at_trace_time, static_argnums=0)
                    a1, a2 = np.asarray(f_static(lat)), np.asarray(f_static(other))
                    ok = np.array_equal(a1, np.asarray(lat.create_adjacency_matrix())) and np.array_equal(a2, np.asarray(other.create_adjacency_matrix()))
                    events.append(ev("equality/static-jit-argument-keeps-lattices-apart", bool(ok), key=key + "/static-jit", differing=differs))
                except Exception as exc:
                    events.append(ev("equality/static-jit-argument", None, key="C20/skip-static-jit", exc=repr(exc)[:160]))
    return {"events": events, "nontrivial": n >= 2,
            "sample": {"cls": case["cls"], "dims": dims, "open": case["open"], "n_sites": n, "degrees": sorted(set(deg.tolist()))},
            "counters": cnt}
