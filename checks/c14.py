"""C14 - walkers evolve independently; batching and storage format change nothing."""
import contextlib
import copy
import io
import os

import numpy as np

from vlib import afqmc, trials
from vlib.monitor import ev, judge

ID = "C14"
LEVEL_TEXT = ("Metamorphic monitor on the real batched routines: outputs under a random permutation of the population (walkers, fields, "
              "weights, overlaps) and under every batch count dividing the walker count (trial.n_batch and prop.n_batch independently) "
              "are compared with the unpermuted / single-batch outputs; closed-shell runs with restricted and unrestricted storage are "
              "driven with the same seed through propagate, the sampler and the driver and compared. Held = on all generated cases.")
LEVEL_NOTE = "trusted: NumPy; comparisons at 1e-12 relative (XLA may re-associate sums), 1e-8 for multi-block trajectories, 2e-6 for the driver's float32 gathers"
TECHNIQUE = "runtime monitoring: metamorphic relations (permutation equivariance, batch independence, storage-format equivalence) on call/return values"
RULE = ("cases = trial kind x walker container x n_walkers=6 x n_batch in {1,2,3,6} x random permutation for measurements, _apply_trotprop and "
        "propagate; storage cases = closed-shell Hamiltonian, RHF trial + restricted propagator vs UHF trial (same orbitals) + unrestricted "
        "propagator, same seed, through propagate / sampler blocks / driver; non-trivial = permutation is not the identity and walkers are "
        "pairwise distinct")
MIN_NONTRIVIAL = {"quick": 20, "thorough": 120}
TIMEOUT = {"quick": 1800, "thorough": 7200}
ASSUMPTIONS = ["n_batch divides n_walkers", "closed-shell, spin-independent Hamiltonians for the storage-format clause"]
REQUIRED_COUNTERS = {"measure_cases": 15, "propagate_cases": 8, "storage_cases": 3}


def gen_cases(tier, seed):
    rng = np.random.default_rng([seed, 14])
    q = tier == "quick"
    cases = []
    kinds = ["rhf", "uhf", "ghf", "noci", "cisd", "ucisd", "UCISD", "multislater"]
    for kind in kinds:
        for cont in ("u", "r"):
            if cont == "u" and kind in trials.RESTRICTED_ONLY:
                continue
            for rep in range(1 if q else 4):
                ne = (2, 2) if (cont == "r" or kind in ("rhf",) + trials.RESTRICTED_ONLY) else tuple(int(x) for x in rng.choice([[2, 2], [2, 1], [3, 1]]))
                cases.append({"type": "measure", "kind": kind, "container": cont, "norb": 4, "nelec": list(ne), "s": int(rng.integers(1 << 30)),
                              "group": "m-%s-%s" % (kind, cont), "cost": 3})
    for kind in (["rhf", "uhf", "noci"] if q else ["rhf", "uhf", "noci", "ghf", "ucisd", "cisd"]):
        for cont in ("u", "r"):
            if cont == "u" and kind in trials.RESTRICTED_ONLY:
                continue
            for rep in range(2 if q else 6):
                ne = (2, 2) if (cont == "r" or kind in ("rhf", "cisd")) else tuple(int(x) for x in rng.choice([[2, 2], [2, 1]]))
                cases.append({"type": "propagate", "kind": kind, "container": cont, "norb": 4, "nelec": list(ne), "s": int(rng.integers(1 << 30)),
                              "dt": float(rng.choice([0.005, 0.02])), "group": "p-%s-%s-%s" % (kind, cont, ne), "cost": 8})
    for pk in ("cpmc", "cpmc_slow", "cpmc_continuous"):
        for tk in ("uhf", "ghf"):
            for rep in range(1 if q else 4):
                cases.append({"type": "cpmc", "prop": pk, "trial": tk, "lattice": str(rng.choice(["chain4", "grid2x2"])), "nelec": [2, int(rng.choice([1, 2]))],
                              "u": float(rng.choice([2.0, 6.0])), "dt": float(rng.choice([0.02, 0.1])), "noise": float(rng.choice([0.1, 0.5])), "style": "afm",
                              "theta": 0.6, "zeeman": float(rng.choice([0.0, 0.5])), "s": int(rng.integers(1 << 30)), "group": "cp-%s-%s-%d" % (pk, tk, rep), "cost": 8})
    for rep in range(2 if q else 10):
        cases.append({"type": "storage", "norb": int(rng.choice([3, 4])), "nocc": int(rng.choice([1, 2])), "s": int(rng.integers(1 << 30)),
                      "level": "sampler", "complex": bool(rep % 2), "group": "st-%d" % rep, "cost": 25})
    for rep in range(2 if q else 6):
        cases.append({"type": "storage", "norb": 4, "nocc": 2, "s": int(rng.integers(1 << 30)), "level": "driver",
                      "ad_mode": ["reverse", None, "forward"][rep % 3], "group": "std-%d" % rep, "cost": 60})
    # without reconfiguration inside the sampler the driver's global reconfiguration meets unequal weights and really reshuffles walkers
    for rep in range(2 if q else 6):
        cases.append({"type": "storage", "norb": 4, "nocc": 2, "s": int(rng.integers(1 << 30)), "level": "driver", "do_sr": False, "rot": bool(rep % 3 == 2),
                      "ad_mode": ["forward", "reverse"][rep % 2], "group": "stdn-%d" % rep, "cost": 60})
    return cases


def _perm(rng, n):
    while True:
        p = rng.permutation(n)
        if not np.array_equal(p, np.arange(n)):
            return p


def run_measure(case):
    import jax.numpy as jnp

    from vlib import measure

    rng = np.random.default_rng(case["s"])
    kind, norb = case["kind"], case["norb"]
    na, nb = case["nelec"]
    cont = case["container"]
    t = trials.make(kind, norb, (na, nb), rng, ms_ndets=8, complex_orbs=bool(kind in ("rhf", "uhf") and (cont == "r" or case["s"] % 2)))
    trial, wd = t["trial"], t["wave_data"]
    h0, h1, chol = trials.rand_ham(rng, norb, 2, spin_dep=False)
    hd = measure.intermediates(t, h0, h1, chol)
    nw = 6
    up = rng.normal(size=(nw, norb, na)) + 1j * rng.normal(size=(nw, norb, na))
    dn = rng.normal(size=(nw, norb, nb)) + 1j * rng.normal(size=(nw, norb, nb))

    def walkers(idx):
        if cont == "u":
            return [jnp.array(up[idx]), jnp.array(dn[idx])]
        return jnp.array(up[idx])

    def all_three(tr, idx):
        w = walkers(idx)
        return (np.asarray(tr.calc_overlap(w, wd)), np.asarray(tr.calc_force_bias(w, hd, wd)), np.asarray(tr.calc_energy(w, hd, wd)))

    idn = np.arange(nw)
    ref = all_three(trial, idn)
    p = _perm(rng, nw)
    events = []
    key = "C14/measure/%s/%s" % (kind, cont)
    names = ("overlap", "force_bias", "energy")
    f32 = kind in ("cisd", "cisd_faster", "ucisd")
    fd = kind in ("multislater",) + trials.AD_CI
    for n_batch in (1, 2, 3, 6):
        tb = copy.copy(trial)
        tb.n_batch = n_batch
        got = all_three(tb, idn)
        gotp = all_three(tb, p)
        for nm, a, b, c in zip(names, ref, got, gotp):
            sc = max(1e-300, float(np.max(np.abs(a))))
            # float32 contractions (hand-coded CI) and the 1/eps^2 round-off amplification of the finite-difference (AD) kinds
            tol = (1e-5 if (f32 and nm == "energy") else (1e-6 if (fd and nm == "energy") else 1e-11))
            events.append(judge("measure/batch-independent", float(np.max(np.abs(a - b))) / sc, tol, key + "/batch/" + nm, n_batch=n_batch))
            events.append(judge("measure/permutation-equivariant", float(np.max(np.abs(a[p] - c))) / sc, tol, key + "/perm/" + nm, n_batch=n_batch))
    if cont == "r" and "u" in t["entries"]:
        # storage format of the SAME walkers: the array container and the list container with equal spin blocks (dn = leading n_dn columns)
        lst = [jnp.array(up), jnp.array(up[:, :, :nb])]
        as_list = (np.asarray(trial.calc_overlap(lst, wd)), np.asarray(trial.calc_force_bias(lst, hd, wd)), np.asarray(trial.calc_energy(lst, hd, wd)))
        for nm, a, b in zip(names, ref, as_list):
            sc = max(1e-300, float(np.max(np.abs(a))))
            tol = (1e-5 if (f32 and nm == "energy") else (1e-6 if (fd and nm == "energy") else 1e-10))
            events.append(judge("measure/array-container-equals-list-container", float(np.max(np.abs(a - b))) / sc, tol, key + "/container/" + nm))
    return {"events": events, "nontrivial": True, "sample": {"kind": kind, "container": cont, "perm": p.tolist()}, "counters": {"measure_cases": 1}}


def run_propagate(case):
    import jax.numpy as jnp

    rng = np.random.default_rng(case["s"])
    kind, norb = case["kind"], case["norb"]
    na, nb = case["nelec"]
    cont = case["container"]
    wt = "uhf" if cont == "u" else "rhf"
    nw = 6
    ham = trials.rand_ham(rng, norb, 3, spin_dep=(cont == "u" and kind in trials.SPIN_DEP_H1))
    seed_t = int(rng.integers(1 << 30))
    fields = rng.normal(size=(nw, 3))
    weights = rng.uniform(0.5, 1.5, size=nw)
    p = _perm(rng, nw)
    base = None
    events = []
    key = "C14/propagate/%s/%s" % (kind, cont)
    wl_noise = None
    for (tb, pb) in ((1, 1), (2, 1), (1, 3), (3, 2), (6, 6)):
        S = afqmc.make_system(kind, norb, (na, nb), np.random.default_rng(seed_t), walker_type=wt, dt=case["dt"], n_walkers=nw, n_batch=pb,
                              trial_batch=tb, ham=ham, rdm1="trial", trial_opts={"ms_ndets": 8} if kind == "multislater" else None)
        if wl_noise is None:
            wl_noise = afqmc.noisy_walkers(np.random.default_rng(seed_t + 1), S, nw, noise=0.15, walker_type=wt)
        prop, trial, hd, wd = S["prop"], S["trial"], S["ham_data"], S["wave_data"]

        def run(idx):
            if cont == "u":
                w = [wl_noise[0][idx], wl_noise[1][idx]]
            else:
                w = wl_noise[idx]
            pd = prop.init_prop_data(trial, wd, hd, w)
            pd["weights"] = jnp.array(weights[idx])
            pd["overlaps"] = trial.calc_overlap(w, wd)
            pd["pop_control_ene_shift"] = jnp.array(0.2)
            # the new shift is e_estimate - 0.1 log(mean weight) / dt: pin the estimate (init_prop_data measures it from the population in
            # whatever precision the trial's energy has, float32 for the hand-coded CI kinds) so that only the weights enter the comparison
            pd["e_estimate"] = jnp.array(-0.7)
            tw = prop._apply_trotprop(hd, w, jnp.array(fields[idx]))
            out = prop.propagate(trial, hd, pd, jnp.array(fields[idx]), wd)
            return (afqmc.np_walkers(tw), afqmc.np_walkers(out["walkers"]), np.asarray(out["weights"]), np.asarray(out["overlaps"]),
                    float(out["pop_control_ene_shift"]))

        res = run(np.arange(nw))
        resp = run(p)
        if base is None:
            base = res

        def wdiff(a, b, idx=None):
            if isinstance(a, list):
                return max(float(np.max(np.abs((a[k][idx] if idx is not None else a[k]) - b[k]))) for k in range(2) if a[k].size)
            return float(np.max(np.abs((a[idx] if idx is not None else a) - b)))

        sc = 1.0
        if (tb, pb) in ((1, 1), (3, 2)):
            # population independence: replace ONE walker by a hostile one (next to a node of the trial: huge force bias, tiny overlap);
            # what the step does to every other walker (same fields, same weights, same incoming shift) must not change at all
            j_h = nw - 1
            hostile = _near_node_walker(trial, wd, wl_noise, j_h, cont)
            if hostile is not None:
                saved = wl_noise
                wl_noise = hostile
                try:
                    resh = run(np.arange(nw))
                finally:
                    wl_noise = saved
                keep = np.arange(nw) != j_h
                dw = max(wdiff([x[keep] for x in res[1]] if isinstance(res[1], list) else res[1][keep],
                               [x[keep] for x in resh[1]] if isinstance(resh[1], list) else resh[1][keep]), 0.0)
                dwt = float(np.max(np.abs(res[2][keep] - resh[2][keep])))
                dov = float(np.max(np.abs(res[3][keep] - resh[3][keep]) / np.abs(res[3][keep])))
                events.append(judge("propagate/other-walkers-independent-of-a-hostile-walker", max(dw, dwt, dov), 1e-11, key + "/population-independence",
                                    parts={"walkers": dw, "weights": dwt, "overlaps": dov}, trial_batch=tb, prop_batch=pb))
        events.append(judge("propagate/batch-independent-trotprop", wdiff(base[0], res[0]), 1e-11, key + "/batch/trotprop", trial_batch=tb, prop_batch=pb))
        events.append(judge("propagate/batch-independent-walkers", wdiff(base[1], res[1]), 1e-11, key + "/batch/walkers", trial_batch=tb, prop_batch=pb))
        events.append(judge("propagate/batch-independent-weights", float(np.max(np.abs(base[2] - res[2]))), 1e-10, key + "/batch/weights", trial_batch=tb, prop_batch=pb))
        events.append(judge("propagate/batch-independent-overlaps", float(np.max(np.abs(base[3] - res[3]) / np.abs(base[3]))), 1e-10, key + "/batch/overlaps"))
        events.append(judge("propagate/permutation-trotprop", wdiff(res[0], resp[0], p), 1e-11, key + "/perm/trotprop", trial_batch=tb, prop_batch=pb))
        events.append(judge("propagate/permutation-walkers", wdiff(res[1], resp[1], p), 1e-11, key + "/perm/walkers", trial_batch=tb, prop_batch=pb))
        events.append(judge("propagate/permutation-weights", float(np.max(np.abs(res[2][p] - resp[2]))), 1e-10, key + "/perm/weights", trial_batch=tb, prop_batch=pb))
        events.append(judge("propagate/shift-symmetric-in-weights", abs(res[4] - resp[4]), 1e-9 * max(1.0, abs(res[4])), key + "/perm/shift"))
    return {"events": events, "nontrivial": True, "sample": {"kind": kind, "container": cont, "weights_out": base[2].tolist(), "shift": base[4]},
            "counters": {"propagate_cases": 1}}


def _near_node_walker(trial, wd, walkers, j, cont):
    """copy of the population in which walker j sits next to a zero of the trial overlap (secant search along a complex line in its up block)"""
    import jax.numpy as jnp

    if cont == "u":
        A = np.asarray(walkers[0][j])
        others = np.asarray(walkers[1][j])
        f = lambda t: complex(trial.calc_overlap([jnp.array((A + t * B)[None]), jnp.array(others[None])], wd)[0])
    else:
        A = np.asarray(walkers[j])
        f = lambda t: complex(trial.calc_overlap(jnp.array((A + t * B)[None]), wd)[0])
    rs = np.random.default_rng(A.size + j)
    B = rs.normal(size=A.shape) + 1j * rs.normal(size=A.shape)
    tb_save = trial.n_batch
    try:
        object.__setattr__(trial, "n_batch", 1)
        t0, t1 = 0.0 + 0.0j, 0.3 + 0.2j
        f0, f1 = f(t0), f(t1)
        for _ in range(60):
            if f1 == f0:
                break
            t0, t1, f0 = t1, t1 - f1 * (t1 - t0) / (f1 - f0), f1
            f1 = f(t1)
            if abs(f1) < 1e-13 * max(1.0, abs(f(0.0))):
                break
        ref = abs(f(0.0))
        if not np.isfinite(abs(t1)) or abs(f1) > 1e-6 * ref:
            return None
        W = A + (t1 + 1e-5) * B
    finally:
        object.__setattr__(trial, "n_batch", tb_save)
    if cont == "u":
        up = np.array(walkers[0])
        up[j] = W
        return [jnp.array(up), walkers[1]]
    w = np.array(walkers)
    w[j] = W
    return jnp.array(w)


def _closed_shell_pair(case, rng, dt, nw, n_batch=1):
    import jax.numpy as jnp
    from jax import random

    from ad_afqmc import hamiltonian, propagation, wavefunctions

    norb, nocc = case["norb"], case["nocc"]
    h0, h1, chol = trials.rand_ham(rng, norb, 3, spin_dep=False, chol_scale=0.4)
    if case["s"] % 2:
        # a one-body matrix handed over with an antisymmetric part (same for both spins): every trial works with its symmetric part, so the
        # problem is still the same closed-shell problem for both storage formats
        anti = rng.normal(size=(norb, norb)) * 0.2
        h1 = np.array([h1[0] + anti - anti.T, h1[1] + anti - anti.T])
    mo = np.linalg.qr(rng.normal(size=(norb, nocc)))[0]
    if case["level"] == "sampler" and (case.get("complex") or case["s"] % 4 == 3):
        # complex trial orbitals (the rhf and uhf measurement routines conjugate them everywhere): still the same closed-shell problem in
        # both formats.  Plain sampler only: the differentiable SCF behind the AD entry points is defined for real orbitals (JAX itself
        # rejects the complex tangent of its real eigenvalues with a TypeError - an explicit refusal, not a silent difference)
        mo = np.linalg.qr(rng.normal(size=(norb, nocc)) + 1j * rng.normal(size=(norb, nocc)))[0]
    ene0 = float(rng.choice([0.0, -3.0, 2.5]))   # the free-projection reference energy must be irrelevant for phaseless runs of either format
    out = {}
    for wt in ("rhf", "uhf"):
        if wt == "rhf":
            trial = wavefunctions.rhf(norb, (nocc, nocc), n_batch=n_batch)
            wd = {"mo_coeff": jnp.array(mo)}
            prop = propagation.propagator_restricted(dt=dt, n_walkers=nw, n_batch=n_batch)
        else:
            trial = wavefunctions.uhf(norb, (nocc, nocc), n_batch=n_batch)
            wd = {"mo_coeff": [jnp.array(mo), jnp.array(mo)]}
            prop = propagation.propagator_unrestricted(dt=dt, n_walkers=nw, n_batch=n_batch)
        wd["rdm1"] = jnp.array([mo @ mo.conj().T, mo @ mo.conj().T])
        ham = hamiltonian.hamiltonian(norb)
        hd = trials.ham_data_of(h0, h1, chol, ene0=ene0)
        out[wt] = dict(trial=trial, wave_data=wd, prop=prop, ham=ham, ham_data_raw=hd)
    return out, mo


def run_storage(case):
    import jax.numpy as jnp
    from jax import random

    from ad_afqmc import config, driver, sampling

    rng = np.random.default_rng(case["s"])
    events = []
    key = "C14/storage/%s" % case["level"]
    if case["level"] == "sampler":
        nw, dt = 6, 0.01
        pair, mo = _closed_shell_pair(case, rng, dt, nw, n_batch=int(rng.choice([1, 2, 3])))
        smp = sampling.sampler(n_prop_steps=4, n_ene_blocks=2, n_sr_blocks=2, n_blocks=1)
        noise = 0.1 * (rng.normal(size=(nw, case["norb"], case["nocc"])) + 1j * rng.normal(size=(nw, case["norb"], case["nocc"])))
        res = {}
        for wt in ("rhf", "uhf"):
            P = pair[wt]
            hd = P["ham"].build_measurement_intermediates(P["ham_data_raw"], P["trial"], P["wave_data"])
            hd = P["ham"].build_propagation_intermediates(hd, P["prop"], P["trial"], P["wave_data"])
            w0 = mo[None] + noise
            init = jnp.array(w0) if wt == "rhf" else [jnp.array(w0), jnp.array(w0)]
            pd = P["prop"].init_prop_data(P["trial"], P["wave_data"], hd, init)
            pd["key"] = random.PRNGKey(case["s"] % 7919)
            energies = []
            for blk in range(2):
                e, pd = smp.propagate_phaseless(P["ham"], hd, P["prop"], pd, P["trial"], P["wave_data"])
                energies.append(float(e))
            wl = np.asarray(pd["walkers"]) if wt == "rhf" else (np.asarray(pd["walkers"][0]), np.asarray(pd["walkers"][1]))
            res[wt] = (energies, np.asarray(pd["weights"]), wl)
        er, eu = res["rhf"][0], res["uhf"][0]
        events.append(judge("storage/sampler-energies", max(abs(a - b) for a, b in zip(er, eu)), 1e-8 * max(1.0, abs(er[0])), key + "/energies", rhf=er, uhf=eu))
        events.append(judge("storage/sampler-weights", float(np.max(np.abs(res["rhf"][1] - res["uhf"][1]))), 1e-8, key + "/weights"))
        up, dn = res["uhf"][2]
        events.append(judge("storage/sampler-walkers", max(float(np.max(np.abs(up - res["rhf"][2]))), float(np.max(np.abs(dn - res["rhf"][2])))), 1e-8, key + "/walkers"))
        sample = {"level": "sampler", "energies_restricted": er, "energies_unrestricted": eu}
    else:
        nw, dt = (6, 0.01) if case.get("do_sr", True) else (12, 0.03)
        nsteps = 3 if case.get("do_sr", True) else 10
        nblk = 3 if case.get("do_sr", True) else 8   # many global reconfigurations of unequal weights when the sampler itself does none
        pair, mo = _closed_shell_pair(case, rng, dt, nw)
        rows, rdm = {}, {}
        for wt in ("rhf", "uhf"):
            P = pair[wt]
            smp = sampling.sampler(n_prop_steps=nsteps, n_ene_blocks=1, n_sr_blocks=2, n_blocks=nblk)
            options = {"dt": dt, "n_walkers": nw, "n_prop_steps": nsteps, "n_ene_blocks": 1, "n_sr_blocks": 2, "n_blocks": nblk,
                       "n_ene_blocks_eql": 1, "n_sr_blocks_eql": 1, "n_eql": 1, "seed": case["s"] % 7919, "ad_mode": case.get("ad_mode"),
                       "orbital_rotation": case.get("rot", True), "do_sr": case.get("do_sr", True), "walker_type": wt, "symmetry": False, "save_walkers": False,
                       "trial": wt, "ene0": 0.0, "free_projection": False, "n_batch": 1}
            buf = io.StringIO()
            with contextlib.redirect_stdout(buf):
                MPI = config.not_MPI()
                e, err = driver.afqmc(dict(P["ham_data_raw"]), P["ham"], P["prop"], P["trial"], dict(P["wave_data"]), smp, None, options, MPI)
            rows[wt] = np.loadtxt("samples_raw.dat").reshape(-1, 3)
            if case.get("ad_mode") == "reverse":
                rdm[wt] = np.load("rdm1_afqmc.npz")["rdm1"]
                os.remove("rdm1_afqmc.npz")
        # an extinct population (all block weights 0) reports 0/0 = NaN for the block energy in BOTH formats: NaN in the same places is
        # agreement (what the weights may do is C09's business), NaN in one format only is not
        def _nan_aware(a_, b_):
            a_, b_ = np.asarray(a_, dtype=float), np.asarray(b_, dtype=float)
            if not np.array_equal(np.isnan(a_), np.isnan(b_)):
                return float("inf")
            m_ = ~np.isnan(a_)
            return float(np.max(np.abs(a_[m_] - b_[m_]))) if m_.any() else 0.0

        d = _nan_aware(rows["rhf"][:, 1], rows["uhf"][:, 1])
        dw = float(np.max(np.abs(rows["rhf"][:, 0] - rows["uhf"][:, 0])))
        sc = max(1.0, float(np.max(np.abs(rows["rhf"][:, 1]))))
        events.append(judge("storage/driver-block-energies", d / sc, 2e-6, key + "/block-energies", ad_mode=case.get("ad_mode"),
                            rhf=rows["rhf"][:, 1].tolist(), uhf=rows["uhf"][:, 1].tolist()))
        events.append(judge("storage/driver-block-weights", dw / max(1.0, float(np.max(rows["rhf"][:, 0]))), 2e-6, key + "/block-weights"))
        if case.get("ad_mode") is not None:
            # the AD observable column (response to the one-body operator handed to the driver) is a reported output too
            do = _nan_aware(rows["rhf"][:, 2], rows["uhf"][:, 2])
            events.append(judge("storage/driver-block-observables", do / max(1.0, float(np.max(np.abs(rows["rhf"][:, 2])))), 2e-5, key + "/block-observables",
                                rhf=rows["rhf"][:, 2].tolist(), uhf=rows["uhf"][:, 2].tolist()))
        if case.get("ad_mode") == "reverse":
            # rdm1_afqmc.npz: the spin-resolved AD density matrix must not depend on the storage format either
            dr = _nan_aware(rdm["rhf"], rdm["uhf"])
            events.append(judge("storage/driver-rdm1", dr, 2e-5 * max(1.0, float(np.max(np.abs(rdm["uhf"])))), key + "/rdm1",
                                trace_restricted=[float(np.trace(rdm["rhf"][0])), float(np.trace(rdm["rhf"][1]))],
                                trace_unrestricted=[float(np.trace(rdm["uhf"][0])), float(np.trace(rdm["uhf"][1]))]))
        sample = {"level": "driver", "ad_mode": case.get("ad_mode"), "block_energies_restricted": rows["rhf"][:, 1].tolist(),
                  "block_energies_unrestricted": rows["uhf"][:, 1].tolist()}
    informative = True
    if case["level"] == "driver":
        informative = bool(np.isfinite(rows["rhf"][:, 1]).any())   # an extinct population in both formats decides nothing
    return {"events": events, "nontrivial": informative, "sample": sample, "counters": {"storage_cases": 1, "storage_extinct_runs": int(not informative)}}


def run_cpmc(case):
    """permutation equivariance of one constrained-path step (walkers, random numbers, weights, overlaps, Green's functions permuted together)"""
    import jax.numpy as jnp

    from checks import c10

    nw = 6
    S = c10._setup(case, np.random.default_rng(case["s"]), nw, "onsite", "slow" if case["prop"] == "cpmc_slow" else "fast")
    if case["prop"] == "cpmc_continuous":
        import math

        from ad_afqmc import propagation

        S["prop"] = propagation.propagator_cpmc_continuous(dt=case["dt"], n_walkers=nw)
        hd_c = dict(S["ham_data"])
        hd_c["hs_constant"] = jnp.array(math.sqrt(case["u"] * case["dt"]))
        hd_c = S["ham"].build_measurement_intermediates(hd_c, S["trial"], S["wave_data"])
        S["ham_data"] = S["ham"].build_propagation_intermediates(hd_c, S["prop"], S["trial"], S["wave_data"])
    rng = np.random.default_rng(case["s"] + 1)
    n, na, nb = S["n"], S["na"], S["nb"]
    wu = S["a"][None] + case["noise"] * rng.normal(size=(nw, n, na))
    wd = S["b"][None] + case["noise"] * rng.normal(size=(nw, n, nb))
    gauss = rng.normal(size=(nw, n))
    weights = rng.uniform(0.5, 1.5, size=nw)
    p = _perm(rng, nw)
    prop, trial, hd, wdat = S["prop"], S["trial"], S["ham_data"], S["wave_data"]

    def run(idx):
        pd = prop.init_prop_data(trial, wdat, hd, [jnp.array(wu[idx] + 0j), jnp.array(wd[idx] + 0j)])
        pd["weights"] = jnp.array(weights[idx])
        pd["pop_control_ene_shift"] = jnp.array(0.3)
        out = prop.propagate(trial, hd, pd, jnp.array(gauss[idx]), wdat)
        return (np.asarray(out["walkers"][0]), np.asarray(out["walkers"][1]), np.asarray(out["weights"]), np.asarray(out["overlaps"]),
                float(out["pop_control_ene_shift"]))

    a = run(np.arange(nw))
    b = run(p)
    key = "C14/cpmc/%s/%s" % (case["prop"], case["trial"])
    alive = a[2][p] > 0
    events = [judge("cpmc/permutation-weights", float(np.max(np.abs(a[2][p] - b[2]))), 1e-11, key + "/weights"),
              judge("cpmc/shift-symmetric-in-weights", abs(a[4] - b[4]) if np.isfinite(a[4]) and np.isfinite(b[4]) else (0.0 if a[4] == b[4] else 1.0), 1e-9 * max(1.0, abs(a[4]) if np.isfinite(a[4]) else 1.0), key + "/shift")]
    if alive.any():
        events.append(judge("cpmc/permutation-walkers", max(float(np.max(np.abs(a[0][p][alive] - b[0][alive]))), float(np.max(np.abs(a[1][p][alive] - b[1][alive]))) if nb else 0.0), 1e-11, key + "/walkers"))
        events.append(judge("cpmc/permutation-overlaps", float(np.max(np.abs(a[3][p][alive] - b[3][alive]) / np.abs(a[3][p][alive]))), 1e-10, key + "/overlaps"))
    return {"events": events, "nontrivial": bool(alive.any()), "sample": {"prop": case["prop"], "trial": case["trial"], "weights": a[2].tolist(), "perm": p.tolist()},
            "counters": {"propagate_cases": 1}}


def run_case(case):
    return {"measure": run_measure, "propagate": run_propagate, "storage": run_storage, "cpmc": run_cpmc}[case["type"]](case)
