"""Verdict machinery shared by all checks: event records, worker fan-out, known-findings
classification, evidence files, three-valued exit codes.

A *check module* (checks/cNN.py) provides
    ID, RULE, MIN_NONTRIVIAL {tier: int}, ASSUMPTIONS [str], TIMEOUT {tier: seconds}
    gen_cases(tier, seed) -> list of JSON-able case descriptors (may carry "group")
    run_case(case)        -> {"events": [...], "nontrivial": bool, "sample": {...}, "counters": {...}}
    finalize(results, tier, seed) -> (optional) extra events computed over the whole run
An *event* is one oracle evaluation:
    {"sub": name, "ok": True | False | None, "resid": float, "tol": float, "key": mechanism key,
     "info": {...}}            ok None == this evaluation was inconclusive / skipped (counted)
"""
import fnmatch
import hashlib
import importlib
import json
import math
import os
import subprocess
import sys
import tempfile
import time
import traceback

VERIF = os.path.dirname(os.path.dirname(os.path.abspath(__file__)))
KNOWN = os.path.join(VERIF, "known_findings.json")
NCPU = min(16, os.cpu_count() or 1)


# ----------------------------------------------------------------------------- events
def ev(sub, ok, resid=None, tol=None, key=None, **info):
    e = {"sub": sub, "ok": ok}
    if resid is not None:
        e["resid"] = _f(resid)
    if tol is not None:
        e["tol"] = _f(tol)
    e["key"] = key if key is not None else sub
    if info:
        e["info"] = _jsonable(info)
    return e


def judge(sub, resid, tol, key=None, **info):
    """ok iff resid is finite and <= tol (NaN residual is a violation, not a pass)."""
    r = _f(resid)
    ok = bool(math.isfinite(r) and r <= tol)
    return ev(sub, ok, r, tol, key, **info)


def _f(x):
    try:
        import numpy as np

        x = np.asarray(x)
        if x.dtype.kind == "c":
            x = np.abs(x)
        x = float(x)
    except Exception:
        x = float(x)
    return x


def _jsonable(o):
    import numpy as np

    if isinstance(o, dict):
        return {str(k): _jsonable(v) for k, v in o.items()}
    if isinstance(o, (list, tuple)):
        return [_jsonable(v) for v in o]
    if isinstance(o, (str, bool)) or o is None:
        return o
    if isinstance(o, (int, np.integer)):
        return int(o)
    if isinstance(o, (float, np.floating)):
        v = float(o)
        return v if math.isfinite(v) else repr(v)
    if isinstance(o, (complex, np.complexfloating)):
        return [float(o.real), float(o.imag)]
    try:
        a = np.asarray(o)
        if a.size <= 64:
            return _jsonable(a.tolist())
        return {"shape": list(a.shape), "dtype": str(a.dtype)}
    except Exception:
        return repr(o)


def case_hash(case):
    c = {k: v for k, v in case.items() if k not in ("idx",)}
    return hashlib.sha1(json.dumps(c, sort_keys=True, default=str).encode()).hexdigest()[:16]


# ----------------------------------------------------------------------------- worker side
def _relieve_memory_maps(limit=30000):
    """every compiled XLA executable holds several memory mappings; a worker that runs hundreds of differently shaped cases can reach
    vm.max_map_count (65530 here), after which LLVM dies with "Cannot allocate memory" (rc -11) although RAM is free: drop the jit caches
    when the count gets high (costs recompilation, never correctness)"""
    try:
        with open("/proc/self/maps") as f:
            n = sum(1 for _ in f)
        if n > limit:
            import gc

            import jax

            jax.clear_caches()
            gc.collect()
    except Exception:
        pass


def worker_main(check_id, infile, outfile):
    from vlib import env

    env.setup()
    mod = importlib.import_module("checks." + check_id.lower())
    cases = json.load(open(infile))
    # every worker gets a directory of its own: driver runs write samples_raw.dat / rdm1_afqmc.npz into the current directory, and the
    # workers of one check share the parent's scratch directory (two concurrent driver cases would overwrite each other's files)
    infile, outfile = os.path.abspath(infile), os.path.abspath(outfile)
    own = tempfile.mkdtemp(prefix="worker_", dir=os.getcwd())
    os.chdir(own)
    out = []
    t0 = time.time()
    for case in cases:
        t1 = time.time()
        crash = os.environ.get("VERIF_TEST_CRASH")   # self-test of the retry path: "<case idx>:<marker file>" kills this worker once
        if crash and str(case.get("idx")) == crash.split(":")[0] and not os.path.exists(crash.split(":")[1]):
            open(crash.split(":")[1], "w").close()
            os.kill(os.getpid(), 11)
        try:
            res = mod.run_case(case)
        except Exception as exc:  # harness or library raised where the check did not expect it
            # an exception raised *inside the library* on a configuration the check drives as supported is a violation
            # (e.g. "Walker type not supported"); one raised in the harness itself makes the run inconclusive
            frames = traceback.extract_tb(exc.__traceback__)
            repo_dir = os.path.join(os.path.realpath(os.environ.get("VERIF_REPO", "/repo")), "ad_afqmc")
            own = [f for f in frames if not ("site-packages" in f.filename or "/lib/python" in f.filename)]
            in_lib = bool(own) and os.path.realpath(own[-1].filename).startswith(repo_dir)
            res = {
                "events": [
                    ev("library-raised-exception" if in_lib else "uncaught-exception", False if in_lib else None,
                       key=("%s/library-exception/%s" % (check_id, type(exc).__name__)) if in_lib else "uncaught-exception",
                       exc=type(exc).__name__, msg=str(exc)[:500], where=("%s:%d" % (own[-1].filename, own[-1].lineno)) if own else None,
                       tb=traceback.format_exc()[-1500:])
                ],
                "nontrivial": False,
                "error": True,
            }
        res["case"] = case
        res["wall"] = time.time() - t1
        out.append(_jsonable(res))
        _relieve_memory_maps()
        # incremental flush so a later crash / time-out keeps what was decided
        with open(outfile + ".tmp", "w") as f:
            json.dump(out, f)
        os.replace(outfile + ".tmp", outfile)
    with open(outfile + ".tmp", "w") as f:
        json.dump(out, f)
    os.replace(outfile + ".tmp", outfile)
    return time.time() - t0


# ----------------------------------------------------------------------------- parent side
def _partition(cases, nworkers):
    """Keep cases of one "group" (same compiled shapes) on one worker; balance by weight."""
    groups = {}
    for c in cases:
        groups.setdefault(str(c.get("group", c.get("idx"))), []).append(c)
    items = sorted(groups.values(), key=lambda g: -sum(c.get("cost", 1) for c in g))
    bins = [[] for _ in range(nworkers)]
    loads = [0.0] * nworkers
    for g in items:
        i = loads.index(min(loads))
        bins[i].extend(g)
        loads[i] += sum(c.get("cost", 1) for c in g)
    return [b for b in bins if b]


def run_workers(check_id, cases, timeout, nworkers=None):
    nworkers = nworkers or NCPU
    parts = _partition(cases, nworkers)
    tmp = tempfile.mkdtemp(prefix="verif_%s_" % check_id)
    procs = []
    env = dict(os.environ)
    env["PYTHONPATH"] = VERIF + os.pathsep + env.get("PYTHONPATH", "")
    env.setdefault("PYTHONHASHSEED", "0")
    for i, part in enumerate(parts):
        fin = os.path.join(tmp, "in%d.json" % i)
        fout = os.path.join(tmp, "out%d.json" % i)
        flog = os.path.join(tmp, "log%d.txt" % i)
        json.dump(part, open(fin, "w"))
        p = subprocess.Popen(
            ["/venv/bin/python", "-m", "vlib.worker", check_id, fin, fout],
            cwd=tmp, env=env, stdout=open(flog, "w"), stderr=subprocess.STDOUT,
        )
        procs.append((p, part, fout, flog))
    deadline = time.time() + timeout
    results, problems = [], []
    for p, part, fout, flog in procs:
        try:
            p.wait(timeout=max(1.0, deadline - time.time()))
        except subprocess.TimeoutExpired:
            p.kill()
            p.wait()
            problems.append("worker watchdog fired after %ds" % timeout)
        got = []
        if os.path.exists(fout):
            try:
                got = json.load(open(fout))
            except Exception:
                got = []
        # a worker killed by the OS / LLVM (not by the watchdog) is re-started once on the cases it did not finish: resource exhaustion in
        # the harness process is not a verdict about the code under test
        if len(got) < len(part) and p.returncode not in (0, None) and time.time() < deadline - 30 and not os.environ.get("VERIF_NO_RETRY"):
            done = {json.dumps(r.get("case"), sort_keys=True) for r in got}
            rest = [c for c in part if json.dumps(c, sort_keys=True) not in done]
            # the case the worker died on goes last (if it is that case's fault the retry dies at the end, having decided the others)
            rest = rest[1:] + rest[:1]
            fin2, fout2 = fout + ".retry.in", fout + ".retry.out"
            json.dump(rest, open(fin2, "w"))
            p2 = subprocess.Popen(["/venv/bin/python", "-m", "vlib.worker", check_id, fin2, fout2], cwd=tmp, env=env,
                                  stdout=open(flog + ".retry", "w"), stderr=subprocess.STDOUT)
            try:
                p2.wait(timeout=max(1.0, deadline - time.time()))
            except subprocess.TimeoutExpired:
                p2.kill()
                p2.wait()
            if os.path.exists(fout2):
                try:
                    got = got + json.load(open(fout2))
                except Exception:
                    pass
            p = p2
        results.extend(got)
        if len(got) < len(part):
            tail = ""
            try:
                tail = open(flog).read()[-800:]
            except Exception:
                pass
            problems.append(
                "worker returned %d of %d cases (rc=%s): %s" % (len(got), len(part), p.returncode, tail)
            )
    import shutil

    shutil.rmtree(tmp, ignore_errors=True)
    return results, problems


def load_known():
    try:
        return json.load(open(KNOWN))["findings"]
    except Exception:
        return []


def classify(check_id, key, known):
    for k in known:
        if k.get("property") == check_id and k.get("status") == "known" and fnmatch.fnmatchcase(
            key, k["key"]
        ):
            return k
    return None


def run_check(mod, tier, seed, replay=None):
    t0 = time.time()
    check_id = mod.ID
    if replay:
        from vlib import env

        env.setup()
        case = json.load(open(replay))
        case = case.get("case", case)
        cwd_ = os.getcwd()
        scratch_ = tempfile.mkdtemp(prefix="verif_replay_")
        os.chdir(scratch_)
        try:
            res = mod.run_case(case)
        finally:
            os.chdir(cwd_)
            import shutil as _sh

            _sh.rmtree(scratch_, ignore_errors=True)
        res["case"] = case
        results, problems = [_jsonable(res)], []
        print(json.dumps(results[0]["events"], indent=1)[:6000])
    else:
        cases = mod.gen_cases(tier, seed)
        for i, c in enumerate(cases):
            c.setdefault("idx", i)
        results, problems = run_workers(
            check_id, cases, mod.TIMEOUT[tier], getattr(mod, "NWORKERS", {}).get(tier)
        )
    extra_events = []
    if hasattr(mod, "finalize") and not replay:
        fin = mod.finalize(results, tier, seed)
        if fin:
            extra_events = fin
    known = load_known()
    violations, known_hits, inconcl = [], {}, []
    n_events = n_ok = n_skip = 0
    worst = {}
    counters = {}
    nontrivial_hashes = set()
    all_hashes = set()
    samples = []
    for r in results:
        h = case_hash(r["case"])
        all_hashes.add(h)
        if r.get("nontrivial"):
            nontrivial_hashes.add(h)
            if len(samples) < 8 and r.get("sample") is not None:
                samples.append({"case": r["case"], "observed": r["sample"]})
        for k, v in (r.get("counters") or {}).items():
            if isinstance(v, (int, float)):
                counters[k] = counters.get(k, 0) + v
        for e in r["events"]:
            _account(e, r["case"], check_id, known, violations, known_hits, inconcl, worst)
            n_events += 1
            n_ok += e["ok"] is True
            n_skip += e["ok"] is None
    for e in extra_events:
        _account(e, {"ensemble": True}, check_id, known, violations, known_hits, inconcl, worst)
        n_events += 1
        n_ok += e["ok"] is True
        n_skip += e["ok"] is None
    if not samples:
        for r in results[:3]:
            samples.append({"case": r["case"], "observed": r.get("sample")})
    reasons = list(problems)
    hard_inconcl = [i for i in inconcl if i["key"] == "uncaught-exception" or i.get("hard")]
    if hard_inconcl:
        reasons.append(
            "%d evaluations ended in an unexpected exception / hard inconclusive, first: %s"
            % (len(hard_inconcl), json.dumps(hard_inconcl[0])[:1500])
        )
    minimum = mod.MIN_NONTRIVIAL[tier] if not replay else 0
    if len(nontrivial_hashes) < minimum:
        reasons.append(
            "only %d distinct non-trivial cases (minimum %d)" % (len(nontrivial_hashes), minimum)
        )
    for name, need in (getattr(mod, "REQUIRED_COUNTERS", {}) or {}).items():
        if not replay and counters.get(name, 0) < need:
            reasons.append("monitor counter %s=%s below %s: deciding monitor not reached"
                           % (name, counters.get(name, 0), need))
    if n_skip > 0.5 * max(1, n_events) and not replay:
        reasons.append("more than half of the oracle evaluations were skipped (%d of %d)" % (n_skip, n_events))

    # ---- replay files + output lines
    os.makedirs(os.path.join(VERIF, "replays"), exist_ok=True)
    lines = []
    seen_keys = set()
    for k, (entry, count, first) in known_hits.items():
        lines.append("KNOWN-FINDING: property=%s %s [key=%s, %d occurrences]"
                     % (check_id, entry["what"], k, count))
    n_viol_reported = 0
    for v in violations:
        if v["key"] in seen_keys and n_viol_reported >= 3:
            continue
        seen_keys.add(v["key"])
        path = os.path.join(VERIF, "replays", "%s_%s_%s.json" % (
            check_id, hashlib.sha1(v["key"].encode()).hexdigest()[:8], case_hash(v["case"])))
        with open(path, "w") as f:
            json.dump({"property": check_id, "tier": tier, "seed": seed, "event": v["event"],
                       "case": v["case"]}, f, indent=1)
        if n_viol_reported < 12:
            lines.append("VIOLATION property=%s replay=%s" % (check_id, path))
            lines.append("  # key=%s sub=%s resid=%s tol=%s info=%s" % (
                v["key"], v["event"]["sub"], v["event"].get("resid"), v["event"].get("tol"),
                json.dumps(v["event"].get("info"))[:400]))
        n_viol_reported += 1

    wall = time.time() - t0
    evidence = {
        "property_id": check_id,
        "tier": tier,
        "seed": int(seed),
        "level": "exploration",
        "coverage": {
            "evaluations": int(n_events),
            "cases": len(results),
            "distinct_cases": len(all_hashes),
            "distinct_nontrivial": len(nontrivial_hashes),
            "rule": mod.RULE,
            "samples": samples[:8] if samples else [{"note": "no case produced a sample"}],
            "oracle_evaluations_ok": int(n_ok),
            "oracle_evaluations_skipped_or_inconclusive": int(n_skip),
            "worst_residual_per_subcheck": worst,
            "monitor_counters": counters,
            "known_finding_hits": {k: c for k, (e, c, f) in known_hits.items()},
            "exhaustive": bool(getattr(mod, "EXHAUSTIVE", False)),
            "inconclusive_reasons": reasons,
        },
        "assumptions": list(mod.ASSUMPTIONS),
        "wall_s": round(wall, 2),
        "violations": len(violations),
    }
    if not replay and not os.environ.get("VERIF_NO_EVIDENCE"):
        os.makedirs(os.path.join(VERIF, "evidence"), exist_ok=True)
        with open(os.path.join(VERIF, "evidence", "%s.json" % check_id), "w") as f:
            json.dump(_jsonable(evidence), f, indent=1)
    print("%s tier=%s seed=%s cases=%d evaluations=%d ok=%d skipped=%d nontrivial=%d violations=%d known=%d wall=%.1fs"
          % (check_id, tier, seed, len(results), n_events, n_ok, n_skip, len(nontrivial_hashes),
             len(violations), sum(c for e, c, f in known_hits.values()), wall))
    for k, w in sorted(worst.items()):
        print("  worst %-44s resid=%.3e tol=%.3e (ratio %.2e)" % (k, w["resid"], w["tol"], w["ratio"]))
    if counters:
        print("  counters " + json.dumps(counters))
    for ln in lines:
        print(ln)
    if violations:
        return 1
    if reasons:
        for r in reasons:
            print("INCONCLUSIVE property=%s reason=%s" % (check_id, r[:1500]))
        return 2
    return 0


def _account(e, case, check_id, known, violations, known_hits, inconcl, worst):
    if e.get("resid") is not None and e.get("tol") is not None and e["ok"] is not None:
        w = worst.get(e["sub"])
        r = e["resid"]
        r = r if isinstance(r, (int, float)) else float("nan")
        t = e["tol"] if isinstance(e["tol"], (int, float)) else float("nan")
        ratio = (r / t) if t > 0 else (0.0 if r == 0 else float("inf"))
        if w is None or not (ratio <= w["ratio"]):
            worst[e["sub"]] = {"resid": r, "tol": t, "ratio": ratio}
    if e["ok"] is False:
        k = classify(check_id, e["key"], known)
        if k is not None:
            ent = known_hits.get(e["key"])
            known_hits[e["key"]] = (k, (ent[1] + 1) if ent else 1, ent[2] if ent else case)
        else:
            violations.append({"key": e["key"], "event": e, "case": case})
    elif e["ok"] is None:
        inconcl.append({"key": e["key"], "case": case, "info": e.get("info"), "hard": (e.get("info") or {}).get("hard")})


def main(argv):
    import argparse

    ap = argparse.ArgumentParser()
    ap.add_argument("check")
    ap.add_argument("tier", nargs="?", default=os.environ.get("VERIF_TIER", "quick"))
    ap.add_argument("--replay")
    a = ap.parse_args(argv)
    seed = int(os.environ.get("VERIF_SEED", "0"))
    sys.path.insert(0, VERIF)
    if a.tier not in ("quick", "thorough"):
        a.tier = "quick"
    from vlib import env

    os.environ[env.GUARD] = "1"
    env.ensure_deps()  # once, in the parent, before the workers start (they would otherwise race to install)
    mod = importlib.import_module("checks." + a.check.lower())
    rc = run_check(mod, a.tier, seed, a.replay)
    sys.exit(rc)
