"""icontract post-conditions armed on the real functions while a real driver.afqmc run executes.

Conditions *record and return True* (a raising contract would abort the workload it observes); every contract
counts its evaluations, zero evaluations = inconclusive.  Named condition functions + explicit error classes
(icontract turns a lambda violation into a SyntaxError).  Calls made under a JAX trace (tracer arguments) are
passed through silently."""
import contextlib

import numpy as np


class ContractBroken(Exception):
    pass


def _concrete(x):
    import jax

    leaves = jax.tree_util.tree_leaves(x)
    return not any(isinstance(l, jax.core.Tracer) for l in leaves)


@contextlib.contextmanager
def armed(log, which=("sr", "qr", "stats")):
    """log: dict name -> {"evaluations": int, "failures": [..]}"""
    import icontract

    from ad_afqmc import linalg_utils, sr, stat_utils

    saved = []

    def note(name, ok, **info):
        rec = log.setdefault(name, {"evaluations": 0, "failures": []})
        rec["evaluations"] += 1
        if not ok and len(rec["failures"]) < 5:
            rec["failures"].append(info)

    def patch(mod, attr, new):
        saved.append((mod, attr, getattr(mod, attr)))
        setattr(mod, attr, new)

    # ------------------------------------------------------------------ stochastic reconfiguration (gather/scatter variants)
    def comb_post(walkers, weights, zeta, comm, result):
        if not (_concrete(walkers) and _concrete(weights)):
            return True
        w_in = np.abs(np.asarray(weights))
        new_walkers, new_w = result
        new_w = np.asarray(new_w)
        n = w_in.size
        ok = bool(np.all(new_w == new_w[0]) and abs(n * new_w[0] - w_in.sum()) <= 1e-12 * w_in.sum())
        ins = [np.asarray(walkers)] if not isinstance(walkers, (list, tuple)) else [np.asarray(walkers[0]), np.asarray(walkers[1])]
        outs = [np.asarray(new_walkers)] if not isinstance(new_walkers, (list, tuple)) else [np.asarray(new_walkers[0]), np.asarray(new_walkers[1])]
        src_all = []
        for a, b in zip(ins, outs):
            src = []
            for k in range(b.shape[0]):
                hit = [i for i in range(a.shape[0]) if np.array_equal(a[i], b[k])]
                src.append(hit)
                ok = ok and bool(hit)
            src_all.append(src)
        if ok and len(src_all) == 2:   # up and dn blocks copied together
            ok = all(set(x) & set(y) for x, y in zip(*src_all))
        if ok:
            ideal = n * w_in / w_in.sum()
            cnt = np.zeros(n)
            for hit in src_all[0]:
                cnt[hit[0]] += 1   # identical input walkers are indistinguishable: count the first match
            distinct = len({a.tobytes() for a in ins[0]}) == n
            if distinct:
                ok = bool(np.all(cnt >= np.floor(ideal - 1e-9)) and np.all(cnt <= np.ceil(ideal + 1e-9)))
        note("comb-postcondition", ok, zeta=float(zeta), weights=w_in[:6].tolist())
        return True

    for name in ("stochastic_reconfiguration_mpi", "stochastic_reconfiguration_mpi_uhf"):
        if "sr" in which:
            f = getattr(sr, name)
            # the uhf variant overwrites walkers[0/1] in place with numpy copies: snapshot a shallow copy of the container first
            def make(f_):
                checked = icontract.ensure(comb_post, error=ContractBroken)(f_)

                def wrapper(walkers, weights, zeta, comm):
                    w_arg = list(walkers) if isinstance(walkers, list) else walkers
                    return checked(w_arg, weights, zeta, comm)

                return wrapper

            patch(sr, name, make(f))

    # ------------------------------------------------------------------ QR helpers
    def qr_post(walkers, result):
        if not _concrete(walkers):
            return True
        q, nrm = result
        qs = [np.asarray(q)] if not isinstance(q, (list, tuple)) else [np.asarray(q[0]), np.asarray(q[1])]
        ok = True
        for m in qs:
            if m.shape[-1]:
                g = np.einsum("wpi,wpj->wij", m.conj(), m)
                ok = ok and bool(np.max(np.abs(g - np.eye(m.shape[-1]))) < 1e-10)
        note("qr-orthonormal", ok)
        return True

    if "qr" in which:
        for name in ("qr_vmap", "qr_vmap_uhf"):
            f = getattr(linalg_utils, name)

            def make_qr(f_):
                checked = icontract.ensure(qr_post, error=ContractBroken)(f_)

                def wrapper(walkers):
                    return checked(list(walkers) if isinstance(walkers, list) else walkers)

                return wrapper

            patch(linalg_utils, name, make_qr(f))

    # ------------------------------------------------------------------ statistics
    def blocking_post(weights, energies, result, neql=0, printQ=False, writeBlockedQ=False):
        from checks.c19 import ref_plateau, ref_table

        w = np.asarray(weights, dtype=float)[neql:]
        e = np.asarray(energies, dtype=float)[neql:]
        mean, err = result
        ok = abs(mean - (w * e).sum() / w.sum()) <= 1e-12 * max(1.0, np.max(np.abs(e)))
        ref = ref_plateau(ref_table(w, e))
        if (err is None) != (ref is None):
            ok = ok and bool(np.ptp(e) == 0)   # constant data may legitimately return 0.0 / None
        elif err is not None:
            ok = ok and abs(err - ref) <= 1e-9 * max(ref, 1e-300)
        note("blocking-definition", bool(ok), n=int(w.size), mean=float(mean), err=err, ref=ref)
        return True

    def outliers_post(data, obs, result, m=10.0):
        x = np.asarray(data)[:, obs]
        d = np.abs(x - np.median(x))
        bound = m * (np.median(d) + 1.0e-10)
        near = np.any(np.abs(d - bound) <= 1e-9 * max(bound, 1e-300))
        kept, mask = result
        ok = near or (np.array_equal(np.asarray(mask), d < bound) and np.array_equal(np.asarray(kept), np.asarray(data)[d < bound]))
        note("outliers-definition", bool(ok), n=int(x.size), obs=int(obs))
        return True

    if "stats" in which:
        patch(stat_utils, "blocking_analysis", icontract.ensure(blocking_post, error=ContractBroken)(stat_utils.blocking_analysis))
        patch(stat_utils, "reject_outliers", icontract.ensure(outliers_post, error=ContractBroken)(stat_utils.reject_outliers))
    try:
        yield log
    finally:
        for mod, attr, old in reversed(saved):
            setattr(mod, attr, old)


def driver_case(which, names, case, key_prefix):
    """run a real driver.afqmc with the named contracts armed; one event per contract (None = never evaluated)"""
    import os
    import shutil
    import tempfile

    from vlib import afqmc
    from vlib.monitor import ev

    log = {}
    cwd0 = os.getcwd()
    tmp = tempfile.mkdtemp(prefix="verif_drv_")
    os.chdir(tmp)
    try:
        with armed(log, which=which):
            e, err, rows = afqmc.run_small_driver(case["s"], wt=case["wt"], ad_mode=case.get("ad_mode"), nblocks=case.get("nblocks", 12))
    finally:
        os.chdir(cwd0)
        shutil.rmtree(tmp, ignore_errors=True)
    events = []
    counters = {}
    for nm in names:
        rec = log.get(nm, {"evaluations": 0, "failures": []})
        counters["contract_" + nm.replace("-", "_")] = rec["evaluations"]
        if rec["evaluations"] == 0:
            events.append(ev("driver-contract/" + nm, None, key=key_prefix + "/driver-contract-not-evaluated/" + nm, hard=True))
        else:
            events.append(ev("driver-contract/" + nm, not rec["failures"], key=key_prefix + "/driver-contract/" + nm, evaluations=rec["evaluations"],
                             failures=rec["failures"][:2]))
    return {"events": events, "nontrivial": True, "sample": {"driver": True, "walker_type": case["wt"], "ad_mode": case.get("ad_mode"), "energy": float(e),
                                                              "contract_evaluations": {k: v["evaluations"] for k, v in log.items()}}, "counters": counters}
