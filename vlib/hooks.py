"""Pre-seeding / reading of the guarded hook keys (H1: importance function + theta, H2: overlap coherence)."""
import contextlib


def seed_overlap(pd):
    import jax.numpy as jnp

    pd["verif_ovlp_incoh"] = jnp.array(0.0)
    pd["verif_ovlp_checks"] = jnp.array(0.0)
    return pd


def read_overlap(pd):
    return float(pd["verif_ovlp_incoh"]), float(pd["verif_ovlp_checks"])


@contextlib.contextmanager
def driver_instrumented(prop_cls, log):
    """Class-level wrappers used while the real driver.afqmc owns prop_data: init_prop_data pre-seeds the hook keys,
    orthonormalize_walkers (called by the driver outside any trace after every sampler call) records them when concrete."""
    import jax

    orig_init = prop_cls.init_prop_data
    orig_qr = prop_cls.orthonormalize_walkers

    def init(self, *a, **k):
        pd = orig_init(self, *a, **k)
        return seed_overlap(pd)

    def qr(self, pd):
        v = pd.get("verif_ovlp_incoh")
        if v is not None and not isinstance(v, jax.core.Tracer):
            log.append((float(v), float(pd["verif_ovlp_checks"])))
        return orig_qr(self, pd)

    prop_cls.init_prop_data = init
    prop_cls.orthonormalize_walkers = qr
    try:
        yield
    finally:
        prop_cls.init_prop_data = orig_init
        prop_cls.orthonormalize_walkers = orig_qr
