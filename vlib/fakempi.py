"""Thread-backed communicator with mpi4py's upper-case buffer semantics, for driving the real
MPI code paths of ad_afqmc (sr.stochastic_reconfiguration_mpi*, propagator.*_global) with R "ranks"
inside one process.  Collectives copy *bytes* (as MPI does), demand matching byte counts, ignore the
receive buffer off root, and record (rank, op, sequence number, arrival order) in a shared log.
Random delays are injected only on entry to a collective - the ranks' real suspension points."""
import threading
import time

import numpy as np


class World:
    def __init__(self, size, seed=0, max_delay=0.002):
        self.size = size
        self.barrier = threading.Barrier(size)
        self.lock = threading.Lock()
        self.slots = {}
        self.log = []
        self.arrivals = {}
        self.rng = np.random.default_rng(seed)
        self.max_delay = max_delay
        self.errors = []

    def comm(self, rank):
        return Comm(self, rank)


class Comm:
    def __init__(self, world, rank):
        self.w = world
        self.rank = rank
        self.size = world.size
        self.seq = 0

    def Get_size(self):
        return self.size

    def Get_rank(self):
        return self.rank

    def _enter(self, op):
        w = self.w
        with w.lock:
            d = float(w.rng.uniform(0, w.max_delay))
        time.sleep(d)
        with w.lock:
            key = (self.seq, op)
            order = w.arrivals.setdefault(self.seq, [])
            order.append(self.rank)
            w.log.append({"rank": self.rank, "op": op, "seq": self.seq, "arrival": len(order) - 1})
        self.seq += 1
        return key

    def _sync(self):
        try:
            self.w.barrier.wait(timeout=60)
        except threading.BrokenBarrierError:
            raise RuntimeError("fakempi: collective not entered by every rank (deadlock / mismatch)")

    def Barrier(self):
        self._enter("Barrier")
        self._sync()

    def Gather(self, sendbuf, recvbuf, root=0):
        seq, _ = self._enter("Gather")
        s = np.ascontiguousarray(sendbuf)
        with self.w.lock:
            self.w.slots[(seq, self.rank)] = s.copy()
        self._sync()
        if self.rank == root:
            if recvbuf is None:
                raise ValueError("fakempi: root passed recvbuf=None to Gather")
            r = np.asarray(recvbuf)
            total = sum(self.w.slots[(seq, k)].nbytes for k in range(self.size))
            if r.nbytes != total:
                raise ValueError("fakempi: Gather byte count mismatch: recv %d, sent %d" % (r.nbytes, total))
            flat = r.reshape(-1).view(np.uint8)
            off = 0
            for k in range(self.size):
                b = self.w.slots[(seq, k)].reshape(-1).view(np.uint8)
                flat[off:off + b.size] = b
                off += b.size
        self._sync()

    def Scatter(self, sendbuf, recvbuf, root=0):
        seq, _ = self._enter("Scatter")
        if self.rank == root:
            if sendbuf is None:
                raise ValueError("fakempi: root passed sendbuf=None to Scatter")
            with self.w.lock:
                self.w.slots[(seq, "root")] = np.ascontiguousarray(sendbuf).copy()
        self._sync()
        src = self.w.slots[(seq, "root")].reshape(-1).view(np.uint8)
        r = np.asarray(recvbuf)
        if r.nbytes * self.size != src.size:
            raise ValueError("fakempi: Scatter byte count mismatch: recv %d x %d, sent %d" % (r.nbytes, self.size, src.size))
        if not r.flags["C_CONTIGUOUS"] or not r.flags["WRITEABLE"]:
            raise ValueError("fakempi: Scatter receive buffer must be a writeable contiguous array")
        r.reshape(-1).view(np.uint8)[:] = src[self.rank * r.nbytes:(self.rank + 1) * r.nbytes]
        self._sync()

    def Bcast(self, buf, root=0):
        seq, _ = self._enter("Bcast")
        if self.rank == root:
            with self.w.lock:
                self.w.slots[(seq, "root")] = np.ascontiguousarray(buf).copy()
        self._sync()
        if self.rank != root:
            np.asarray(buf).reshape(-1).view(np.uint8)[:] = self.w.slots[(seq, "root")].reshape(-1).view(np.uint8)
        self._sync()

    def bcast(self, obj, root=0):
        seq, _ = self._enter("bcast")
        if self.rank == root:
            with self.w.lock:
                self.w.slots[(seq, "root")] = obj
        self._sync()
        out = self.w.slots[(seq, "root")]
        self._sync()
        return out

    def Reduce(self, sendbuf, recvbuf, op=None, root=0):
        seq, _ = self._enter("Reduce")
        s = np.array(sendbuf[0] if isinstance(sendbuf, (list, tuple)) else sendbuf)
        with self.w.lock:
            self.w.slots[(seq, self.rank)] = s.copy()
        self._sync()
        if self.rank == root:
            tot = sum(self.w.slots[(seq, k)] for k in range(self.size))
            tgt = recvbuf[0] if isinstance(recvbuf, (list, tuple)) else recvbuf
            np.copyto(tgt, tot.astype(tgt.dtype))
        self._sync()


class FakeMPI:
    FLOAT = None
    INT = None
    SUM = None

    def __init__(self, comm):
        self.COMM_WORLD = comm


def run_ranks(size, fn, seed=0, max_delay=0.002):
    """Run fn(comm) on `size` threads; returns (results by rank, world)."""
    world = World(size, seed, max_delay)
    results = [None] * size
    errors = [None] * size

    def target(rank):
        try:
            results[rank] = fn(world.comm(rank))
        except BaseException as exc:  # noqa
            errors[rank] = exc
            try:
                world.barrier.abort()
            except Exception:
                pass

    threads = [threading.Thread(target=target, args=(r,)) for r in range(size)]
    for t in threads:
        t.start()
    for t in threads:
        t.join(timeout=120)
    world.errors = errors
    return results, world


def collectives_consistent(world):
    """Every rank performed the same sequence of collective operations."""
    per_rank = {}
    for e in world.log:
        per_rank.setdefault(e["rank"], []).append(e["op"])
    seqs = list(per_rank.values())
    return all(s == seqs[0] for s in seqs) and len(per_rank) == world.size, per_rank


def arrival_signature(world):
    return tuple(tuple(v) for k, v in sorted(world.arrivals.items()))
