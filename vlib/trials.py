"""Seeded generators of trial wave functions together with their explicit Fock-space vector.

make(kind, norb, nelec, rng) -> dict(trial, wave_data, psi, entries)
  trial      the library object (ad_afqmc.wavefunctions.*)
  wave_data  the dictionary the library expects
  psi        the same state written out in second quantisation by vlib.fockref (NumPy)
  entries    which single-walker entry points the kind defines: subset of {"u", "r"}
Trial parameters are real (the NOCI docstring says so; the code conjugates inconsistently across
kinds, so complex trial orbitals are outside the admissible set) - except for rhf and uhf, whose routines
conjugate the trial orbitals everywhere (overlap, Green's function, rot_h1, rot_chol): complex_orbs=True
draws complex orbitals for those two kinds.  Walkers are complex.
"""
import itertools

import numpy as np

from vlib import fockref

SINGLE_DET = ("rhf", "uhf", "ghf")
AD_CI = ("CISD", "UCISD", "GCISD", "CISD_THC")
HAND_CI = ("cisd", "cisd_faster", "ucisd")
ALL_KINDS = ("rhf", "uhf", "ghf", "noci", "multislater") + AD_CI + HAND_CI
RESTRICTED_ONLY = ("CISD", "CISD_THC", "cisd", "cisd_faster")
SPIN_DEP_H1 = ("uhf", "ghf", "noci", "multislater", "UCISD", "GCISD")


def rand_orth(rng, n):
    q, r = np.linalg.qr(rng.normal(size=(n, n)))
    return q * np.sign(np.diag(r))


def sym_ci2(rng, no, nv, scale):
    c = rng.normal(size=(no, nv, no, nv)) * scale
    return (c + c.transpose(2, 3, 0, 1)) / 2


def antisym_ci2(rng, no, nv, scale):
    c = rng.normal(size=(no, nv, no, nv)) * scale
    c = c - c.transpose(2, 1, 0, 3)
    c = c - c.transpose(0, 3, 2, 1)
    return c / 4


def all_dets(norb, na, nb):
    out = []
    for oa in itertools.combinations(range(norb), na):
        for ob in itertools.combinations(range(norb), nb):
            da = tuple(1 if i in oa else 0 for i in range(norb))
            db = tuple(1 if i in ob else 0 for i in range(norb))
            out.append((da, db))
    return out


def needed_excitation(dets):
    d0 = dets[0]
    m = 0
    for d in dets:
        ea = sum(abs(a - b) for a, b in zip(d[0], d0[0])) // 2
        eb = sum(abs(a - b) for a, b in zip(d[1], d0[1])) // 2
        m = max(m, ea + eb)
    return m


def multislater_wave_data(state, max_excitation):
    from ad_afqmc import pyscf_interface

    Acre, Ades, Bcre, Bdes, coeff, ref_det = pyscf_interface.get_excitations(
        state=state, max_excitation=max_excitation
    )
    return {"Acre": Acre, "Ades": Ades, "Bcre": Bcre, "Bdes": Bdes, "coeff": coeff,
            "ref_det": ref_det}


def make(kind, norb, nelec, rng, orthonormal=False, ci_scale=0.3, n_batch=1, eps=None,
         ms_ref="random", ms_extra_exc=0, ms_ndets=None, noci_ndets=3, complex_orbs=False):
    import jax.numpy as jnp

    from ad_afqmc import wavefunctions as wf

    na, nb = nelec
    F = fockref.get(norb)
    kw = {}
    if eps is not None:
        kw["eps"] = eps
    out = {"kind": kind, "norb": norb, "nelec": (na, nb)}
    if kind == "rhf":
        assert na == nb
        mo = rng.normal(size=(norb, na))
        if complex_orbs:
            mo = mo + 1j * rng.normal(size=(norb, na))
        if orthonormal:
            mo = np.linalg.qr(mo)[0]
        out["trial"] = wf.rhf(norb, (na, nb), n_batch=n_batch)
        out["wave_data"] = {"mo_coeff": jnp.array(mo)}
        out["psi"] = F.det(mo, mo)
        out["entries"] = ("u", "r")
        out["orbs"] = (mo, mo)
    elif kind == "uhf":
        ma, mb = rng.normal(size=(norb, na)), rng.normal(size=(norb, nb))
        if complex_orbs:
            ma, mb = ma + 1j * rng.normal(size=(norb, na)), mb + 1j * rng.normal(size=(norb, nb))
        if orthonormal:
            ma, mb = np.linalg.qr(ma)[0], np.linalg.qr(mb)[0]
        out["trial"] = wf.uhf(norb, (na, nb), n_batch=n_batch)
        out["wave_data"] = {"mo_coeff": [jnp.array(ma), jnp.array(mb)]}
        out["psi"] = F.det(ma, mb)
        out["entries"] = ("u", "r")
        out["orbs"] = (ma, mb)
    elif kind == "ghf":
        mo = rng.normal(size=(2 * norb, na + nb))
        if orthonormal:
            mo = np.linalg.qr(mo)[0]
        out["trial"] = wf.ghf(norb, (na, nb), n_batch=n_batch)
        out["wave_data"] = {"mo_coeff": jnp.array(mo)}
        out["psi"] = F.gdet(mo)
        out["entries"] = ("u", "r")
    elif kind == "noci":
        nd = noci_ndets
        ci = rng.normal(size=nd)
        da = rng.normal(size=(nd, norb, na))
        db = rng.normal(size=(nd, norb, nb))
        if orthonormal:
            da = np.array([np.linalg.qr(x)[0] for x in da]).reshape(nd, norb, na)
            db = np.array([np.linalg.qr(x)[0] for x in db]).reshape(nd, norb, nb)
        out["trial"] = wf.noci(norb, (na, nb), nd, n_batch=n_batch)
        out["wave_data"] = {"ci_coeffs_dets": [jnp.array(ci), [jnp.array(da), jnp.array(db)]]}
        psi = 0
        for i in range(nd):
            psi = psi + ci[i] * F.det(da[i], db[i])
        out["psi"] = psi
        out["entries"] = ("u", "r")
    elif kind == "multislater":
        dets = all_dets(norb, na, nb)
        if ms_ndets is not None and ms_ndets < len(dets):
            sel = rng.choice(len(dets), size=ms_ndets, replace=False)
            dets = [dets[i] for i in sel]
        order = rng.permutation(len(dets))
        dets = [dets[i] for i in order]
        if ms_ref == "aufbau":
            auf = (tuple(1 if i < na else 0 for i in range(norb)),
                   tuple(1 if i < nb else 0 for i in range(norb)))
            dets = [auf] + [d for d in dets if d != auf]
        elif ms_ref == "inverted":  # anti-aufbau: the highest orbitals are occupied, every other determinant is reached by downward moves
            inv = (tuple(1 if i >= norb - na else 0 for i in range(norb)),
                   tuple(1 if i >= norb - nb else 0 for i in range(norb)))
            dets = [inv] + [d for d in dets if d != inv]
        elif ms_ref == "closed":  # same occupation for both spins (needs na == nb)
            occ = tuple(sorted(rng.choice(norb, size=na, replace=False).tolist()))
            d0 = tuple(1 if i in occ else 0 for i in range(norb))
            dets = [(d0, d0)] + [d for d in dets if d != (d0, d0)]
        coeffs = rng.normal(size=len(dets))
        coeffs[0] = np.sign(coeffs[0]) * (abs(coeffs[0]) + 0.5)  # reference coefficient not ~0
        state = {d: float(c) for d, c in zip(dets, coeffs)}
        mexc = needed_excitation(dets) + ms_extra_exc
        mexc = max(mexc, 1)
        out["trial"] = wf.multislater(norb, (na, nb), max_excitation=mexc, n_batch=n_batch, **kw)
        out["wave_data"] = multislater_wave_data(state, mexc)
        out["psi"] = F.ci_state(state)
        out["entries"] = ("u", "r") if na == nb else ("u",)
        out["state"] = state
        out["max_excitation"] = mexc
        out["ref"] = dets[0]
    elif kind in ("CISD", "cisd", "cisd_faster", "CISD_THC"):
        assert na == nb
        no, nv = na, norb - na
        ci1 = rng.normal(size=(no, nv)) * ci_scale
        wd = {"ci1": jnp.array(ci1)}
        if kind == "CISD_THC":
            npts = 3
            xo = rng.normal(size=(npts, no))
            xv = rng.normal(size=(npts, nv))
            v = rng.normal(size=(npts, npts)) * ci_scale
            v = (v + v.T) / 2
            ci2 = np.einsum("Pi,Pa,PQ,Qj,Qb->iajb", xo, xv, v, xo, xv)
            wd.update({"Xocc": jnp.array(xo), "Xvirt": jnp.array(xv), "VKL": jnp.array(v)})
        else:
            ci2 = sym_ci2(rng, no, nv, ci_scale)
            wd["ci2"] = jnp.array(ci2)
        cls = {"CISD": wf.CISD, "cisd": wf.cisd, "cisd_faster": wf.cisd_faster,
               "CISD_THC": wf.CISD_THC}[kind]
        if kind in ("CISD", "CISD_THC"):
            out["trial"] = cls(norb, (na, nb), n_batch=n_batch, **kw)
        else:
            out["trial"] = cls(norb, (na, nb), n_batch=n_batch)
        out["wave_data"] = wd
        out["psi"] = F.cisd_restricted(no, ci1, ci2)
        out["entries"] = ("r",)
    elif kind in ("UCISD", "ucisd"):
        nva, nvb = norb - na, norb - nb
        c1a = rng.normal(size=(na, nva)) * ci_scale
        c1b = rng.normal(size=(nb, nvb)) * ci_scale
        c2aa = antisym_ci2(rng, na, nva, ci_scale)
        c2bb = antisym_ci2(rng, nb, nvb, ci_scale)
        c2ab = rng.normal(size=(na, nva, nb, nvb)) * ci_scale
        mob = rand_orth(rng, norb)
        wd = {"ci1A": jnp.array(c1a), "ci1B": jnp.array(c1b), "ci2AA": jnp.array(c2aa),
              "ci2BB": jnp.array(c2bb), "ci2AB": jnp.array(c2ab),
              "mo_coeff": [jnp.eye(norb), jnp.array(mob)]}
        if kind == "UCISD":
            out["trial"] = wf.UCISD(norb, (na, nb), n_batch=n_batch, **kw)
        else:
            out["trial"] = wf.ucisd(norb, (na, nb), n_batch=n_batch)
        out["wave_data"] = wd
        out["psi"] = F.ucisd(na, nb, c1a, c1b, c2aa, c2ab, c2bb, mob)
        out["entries"] = ("u", "r") if na == nb else ("u",)
        out["mo_b"] = mob
    elif kind == "GCISD":
        no = na + nb
        nv = 2 * norb - no
        c1 = rng.normal(size=(no, nv)) * ci_scale
        c2 = antisym_ci2(rng, no, nv, ci_scale)
        mo = rand_orth(rng, 2 * norb)
        out["trial"] = wf.GCISD(norb, (na, nb), n_batch=n_batch, **kw)
        out["wave_data"] = {"ci1": jnp.array(c1), "ci2": jnp.array(c2), "mo_coeff": jnp.array(mo)}
        out["psi"] = F.gcisd(no, c1, c2, mo)
        out["entries"] = ("u", "r") if na == nb else ("u",)
    else:
        raise ValueError(kind)
    return out


def rand_walker(rng, norb, na, nb, near=None, noise=1.0):
    """complex, non-orthonormal walker (up, dn).  near=(A, B): start from those orbitals."""
    def blk(n, base):
        w = rng.normal(size=(norb, n)) + 1j * rng.normal(size=(norb, n))
        if base is not None:
            w = np.asarray(base)[:, :n] + noise * w
        return w

    return blk(na, None if near is None else near[0]), blk(nb, None if near is None else near[1])


def rand_ham(rng, norb, nchol, spin_dep=True, scale=1.0, chol_scale=0.5):
    """(h0, h1 (2,n,n) symmetric, chol (nchol, n*n) symmetric matrices)."""
    h0 = float(rng.normal())
    h1 = rng.normal(size=(2, norb, norb)) * scale
    h1 = (h1 + h1.transpose(0, 2, 1)) / 2
    if not spin_dep:
        h1[1] = h1[0]
    chol = rng.normal(size=(nchol, norb, norb)) * chol_scale
    chol = (chol + chol.transpose(0, 2, 1)) / 2
    return h0, h1, chol.reshape(nchol, norb * norb)


def ham_data_of(h0, h1, chol, ene0=0.0):
    import jax.numpy as jnp

    return {"h0": jnp.array(h0), "h1": jnp.array(h1), "chol": jnp.array(chol), "ene0": ene0}
