"""Small lattice-model set-ups for the CPMC checks (NumPy side + library objects)."""
import numpy as np


def chain_adjacency(n, periodic=True):
    a = np.zeros((n, n))
    for i in range(n - 1):
        a[i, i + 1] = a[i + 1, i] = 1.0
    if periodic and n > 2:
        a[0, n - 1] = a[n - 1, 0] = 1.0
    return a


def grid_adjacency(lx, ly):
    n = lx * ly
    a = np.zeros((n, n))
    for y in range(ly):
        for x in range(lx):
            i = y * lx + x
            for dx, dy in ((1, 0), (0, 1)):
                xx, yy = (x + dx) % lx, (y + dy) % ly
                j = yy * lx + xx
                if i != j:
                    a[i, j] = a[j, i] = 1.0
    return a


def lattice_h1(kind, rng=None, disorder=0.0):
    if kind == "chain2":
        a = chain_adjacency(2)
    elif kind == "chain3":
        a = chain_adjacency(3)
    elif kind == "chain4":
        a = chain_adjacency(4)
    elif kind == "open3":
        a = chain_adjacency(3, periodic=False)
    elif kind == "open4":
        a = chain_adjacency(4, periodic=False)
    elif kind == "grid2x2":
        a = grid_adjacency(2, 2)
    else:
        raise ValueError(kind)
    k = -1.0 * a
    if disorder and rng is not None:
        k = k + np.diag(rng.normal(size=a.shape[0]) * disorder)
    return k


def neighbor_pairs(k):
    n = k.shape[0]
    return tuple((i, j) for i in range(n) for j in range(i + 1, n) if k[i, j] != 0)


def onsite_chol(n, u):
    """Cholesky vectors of sum_i U n_i n_i: L_g = sqrt(U) e_g e_g^T."""
    chol = np.zeros((n, n, n))
    for g in range(n):
        chol[g, g, g] = np.sqrt(u)
    return chol.reshape(n, n * n)


def extended_chol(n, u, u1, pairs):
    """Cholesky vectors of the interaction matrix V_ij (U on the diagonal, U_1 on neighbour
    pairs) through its eigen-decomposition: (ii|jj) = V_ij = sum_g L^g_ii L^g_jj."""
    v = np.eye(n) * u
    for i, j in pairs:
        v[i, j] = v[j, i] = u1
    w, x = np.linalg.eigh(v)
    chol = []
    for g in range(n):
        if w[g] > 1e-12:
            chol.append(np.diag(np.sqrt(w[g]) * x[:, g]))
    chol = np.array(chol) if chol else np.zeros((1, n, n))
    return chol.reshape(chol.shape[0], n * n)


def trial_orbitals(rng, k, na, nb, style):
    """Real orthonormal trial orbitals. style: 'uniform' = lowest eigenvectors of K (uniform
    density on a ring at closed shells), 'random' = random orthonormal (non-uniform density),
    'afm' = eigenvectors of K +- staggered field (spin-density wave)."""
    n = k.shape[0]
    if style == "uniform":
        w, v = np.linalg.eigh(k)
        return v[:, :na].copy(), v[:, :nb].copy()
    if style == "afm":
        stag = np.diag([(-1.0) ** i for i in range(n)])
        _, va = np.linalg.eigh(k + 0.7 * stag)
        _, vb = np.linalg.eigh(k - 0.7 * stag)
        return va[:, :na].copy(), vb[:, :nb].copy()
    a = np.linalg.qr(rng.normal(size=(n, max(na, 1))))[0][:, :na]
    b = np.linalg.qr(rng.normal(size=(n, max(nb, 1))))[0][:, :nb]
    return a, b


def ghf_from_uhf(a, b, theta):
    """Rotate a UHF determinant about the y axis by 2*theta (as examples/hubbard.ipynb does)."""
    n = a.shape[0]
    na, nb = a.shape[1], b.shape[1]
    mo = np.zeros((2 * n, na + nb))
    mo[:n, :na] = np.cos(theta) * a
    mo[n:, :na] = np.sin(theta) * a
    mo[:n, na:] = np.sin(-theta) * b
    mo[n:, na:] = np.cos(-theta) * b
    return mo
