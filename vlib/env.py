"""Process environment for every check worker.

* imports ad_afqmc from the working tree of the repository (``$VERIF_REPO`` or /repo); the
  package is not installed in /venv, so nothing has to be rebuilt and no stale copy exists;
* switches the guarded hooks on (``ANKIT76_AD_AFQMC_VERIF=1``) *before* the package is imported;
* disables MPI (no libmpi in the sandbox) and sets JAX to x64 / cpu / single thread through the
  library's own ``setup_jax``;
* puts /verif/.deps (icontract, deal) on sys.path, installing it from the offline wheelhouse
  when absent (it is git-ignored, so it is absent after a restore).
"""
import os
import subprocess
import sys

VERIF = os.path.dirname(os.path.dirname(os.path.abspath(__file__)))
REPO = os.environ.get("VERIF_REPO", "/repo")
GUARD = "ANKIT76_AD_AFQMC_VERIF"
DEPS = os.path.join(VERIF, ".deps")
WHEELS = "/opt/veriftools/wheels"


def ensure_deps():
    if not os.path.isdir(os.path.join(DEPS, "icontract")):
        os.makedirs(DEPS, exist_ok=True)
        subprocess.run(
            ["/venv/bin/pip", "install", "-q", "--no-index", "--find-links", WHEELS,
             "--target", DEPS, "icontract", "deal"],
            check=False, stdout=subprocess.DEVNULL, stderr=subprocess.DEVNULL,
        )
    if DEPS not in sys.path:
        sys.path.append(DEPS)


_done = False


def setup(need_jax=True):
    global _done
    if _done:
        return
    os.environ[GUARD] = "1"
    os.environ.setdefault("OMP_NUM_THREADS", "1")
    os.environ.setdefault("MKL_NUM_THREADS", "1")
    os.environ.setdefault("OPENBLAS_NUM_THREADS", "1")
    os.environ.setdefault("JAX_PLATFORMS", "cpu")
    if REPO not in sys.path:
        sys.path.insert(0, REPO)
    if VERIF not in sys.path:
        sys.path.insert(0, VERIF)
    ensure_deps()
    from ad_afqmc import config

    config.afqmc_config["use_mpi"] = False
    if need_jax:
        config.setup_jax()
    _done = True
