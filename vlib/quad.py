"""R2 - exact Gaussian averaging by tensor Gauss-Hermite quadrature (probabilists' weight exp(-x^2/2)/sqrt(2 pi))."""
import itertools

import numpy as np


def gauss_hermite(n):
    x, w = np.polynomial.hermite_e.hermegauss(n)
    return x, w / np.sqrt(2 * np.pi)


def tensor_nodes(n, nfields):
    x, w = gauss_hermite(n)
    nodes = np.array(list(itertools.product(x, repeat=nfields)))
    weights = np.array([np.prod(c) for c in itertools.product(w, repeat=nfields)])
    return nodes, weights


def second_order_verdict(dts, resid_vecs, scale):
    """Decide whether the residual vectors R(dt) of a dt ladder (dt halved each time) are O(dt^2).

    Pass outright when every consecutive ratio |R(dt)|/|R(dt/2)| >= 3.  Competing dt^2 and dt^3 terms can
    legitimately depress individual ratios before the asymptotic regime, so otherwise the first-order
    coefficient C of R(dt) = C dt + A dt^2 + B dt^3 + ... is extrapolated (Lagrange, R/dt -> dt = 0) from the
    three coarsest and from the three finest steps: a genuine O(dt) term gives two agreeing non-zero
    estimates, a pure O(dt^2) residual gives estimates that shrink with the extrapolation error.
    Returns (ok, info)."""
    norms = [float(np.linalg.norm(r) / scale) for r in resid_vecs]
    ratios = [a / b for a, b in zip(norms[:-1], norms[1:]) if a > 1e-9 and b > 1e-12]
    info = {"residuals": norms, "ratios": ratios}
    if not ratios:
        return None, info
    if min(ratios) >= 3.0:
        return True, info

    def extrap(idx):
        xs = [dts[i] for i in idx]
        c = 0
        for i in idx:
            lam = 1.0
            for j in idx:
                if j != i:
                    lam *= (0.0 - dts[j]) / (dts[i] - dts[j])
            c = c + lam * resid_vecs[i] / dts[i]
        return c

    n = len(dts)
    ca = extrap(list(range(0, 3)))
    cb = extrap(list(range(n - 3, n)))
    na, nb, nd = (float(np.linalg.norm(v) / scale) for v in (ca, cb, ca - cb))
    info.update({"first_order_coeff_coarse": na, "first_order_coeff_fine": nb, "difference": nd})
    ok = nb <= 3.0 * nd + 1e-7
    return bool(ok), info
