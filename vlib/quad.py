"""R2 - exact Gaussian averaging by tensor Gauss-Hermite quadrature (probabilists' weight exp(-x^2/2)/sqrt(2 pi))."""
import itertools

import numpy as np


def gauss_hermite(n):
    x, w = np.polynomial.hermite_e.hermegauss(n)
    return x, w / np.sqrt(2 * np.pi)


def tensor_nodes(n, nfields):
    x, w = gauss_hermite(n)
    nodes = np.array(list(itertools.product(x, repeat=nfields)))
    weights = np.array([np.prod(c) for c in itertools.product(w, repeat=nfields)])
    return nodes, weights
