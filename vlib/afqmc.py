"""Set-up helpers for the propagation / sampler checks: a complete (ham, ham_data, propagator,
trial, wave_data, prop_data) tuple built through the library's public path."""
import numpy as np

from vlib import trials


def make_system(kind, norb, nelec, rng, walker_type="uhf", dt=0.01, n_walkers=8, nchol=2, n_batch=1,
                trial_batch=1, n_exp_terms=6, spin_dep=None, ham_scale=1.0, chol_scale=0.5, rdm1="trial",
                orthonormal=True, ene0=0.0, seed=0, init_walkers=None, trial_opts=None, ham=None):
    import jax.numpy as jnp
    from jax import random

    from ad_afqmc import hamiltonian, propagation

    t = trials.make(kind, norb, tuple(nelec), rng, orthonormal=orthonormal, n_batch=trial_batch, **(trial_opts or {}))
    trial, wave_data = t["trial"], t["wave_data"]
    if spin_dep is None:
        spin_dep = (kind in trials.SPIN_DEP_H1) and walker_type == "uhf"
    if ham is None:
        h0, h1, chol = trials.rand_ham(rng, norb, nchol, spin_dep=spin_dep, scale=ham_scale, chol_scale=chol_scale)
    else:
        h0, h1, chol = ham
    ham_data = trials.ham_data_of(h0, h1, chol, ene0=ene0)
    if rdm1 == "trial":
        try:
            wave_data["rdm1"] = trial.get_rdm1(wave_data)
        except NotImplementedError:
            wave_data["rdm1"] = jnp.array(np.asarray(_fock_rdm1(t)))
    elif rdm1 == "random":
        a = rng.normal(size=(2, norb, norb)) * 0.5
        wave_data["rdm1"] = jnp.array((a + a.transpose(0, 2, 1)) / 2 + np.eye(norb) * 0.5)
    else:
        wave_data["rdm1"] = jnp.array(rdm1)
    if walker_type == "rhf":
        prop = propagation.propagator_restricted(dt=dt, n_walkers=n_walkers, n_exp_terms=n_exp_terms, n_batch=n_batch)
    else:
        prop = propagation.propagator_unrestricted(dt=dt, n_walkers=n_walkers, n_exp_terms=n_exp_terms, n_batch=n_batch)
    hm = hamiltonian.hamiltonian(norb)
    ham_data = hm.build_measurement_intermediates(ham_data, trial, wave_data)
    ham_data = hm.build_propagation_intermediates(ham_data, prop, trial, wave_data)
    try:
        prop_data = prop.init_prop_data(trial, wave_data, ham_data, init_walkers)
        prop_data["key"] = random.PRNGKey(seed)
    except ValueError as exc:  # the initial-walker generator may legitimately refuse (e.g. restricted walkers for a spin-broken reference)
        if init_walkers is not None:
            raise
        prop_data = None
        t["init_refused"] = str(exc)
    return {"t": t, "trial": trial, "wave_data": wave_data, "ham": hm, "ham_data": ham_data, "prop": prop,
            "prop_data": prop_data, "h0": h0, "h1": h1, "chol": chol, "norb": norb, "nelec": tuple(nelec)}


def _fock_rdm1(t):
    from vlib import fockref

    F = fockref.get(t["norb"])
    return F.rdm1(t["psi"]).real


def noisy_walkers(rng, sysd, n_walkers, noise=0.2, walker_type="uhf"):
    """walkers = natural-orbital initial walkers + complex noise (non-orthonormal)"""
    import jax.numpy as jnp

    trial, wd = sysd["trial"], sysd["wave_data"]
    na, nb = sysd["nelec"]
    norb = sysd["norb"]
    base = trial.get_init_walkers(wd, n_walkers, restricted=(walker_type == "rhf"))
    if walker_type == "rhf":
        w = np.asarray(base) + noise * (rng.normal(size=(n_walkers, norb, na)) + 1j * rng.normal(size=(n_walkers, norb, na)))
        return jnp.array(w)
    u = np.asarray(base[0]) + noise * (rng.normal(size=(n_walkers, norb, na)) + 1j * rng.normal(size=(n_walkers, norb, na)))
    d = np.asarray(base[1]) + noise * (rng.normal(size=(n_walkers, norb, nb)) + 1j * rng.normal(size=(n_walkers, norb, nb)))
    return [jnp.array(u), jnp.array(d)]


def copy_pd(pd):
    return {k: (list(v) if isinstance(v, list) else v) for k, v in pd.items()}


def np_walkers(w):
    if isinstance(w, (list, tuple)):
        return [np.asarray(w[0]), np.asarray(w[1])]
    return np.asarray(w)


def run_small_driver(seed, wt="uhf", ad_mode=None, nblocks=12, nw=6, do_sr=True, rot=True):
    """a complete, small driver.afqmc run (converged rhf/uhf trial, 4 orbitals) in the current directory; returns (energy, error, rows of samples_raw.dat)"""
    import contextlib
    import io

    import jax.numpy as jnp

    from ad_afqmc import config, driver, hamiltonian, propagation, sampling, wavefunctions
    from checks.c08 import _converged_system

    rng = np.random.default_rng(seed)
    dt = 0.02
    kind, ne, ham_t, Cs = _converged_system(wt, rng, nw, dt, None)
    norb = 4
    h0, h1, chol = ham_t
    if kind == "rhf":
        trial = wavefunctions.rhf(norb, ne)
        wd = {"mo_coeff": jnp.array(Cs)}
        prop = propagation.propagator_restricted(dt=dt, n_walkers=nw)
    else:
        trial = wavefunctions.uhf(norb, ne)
        wd = {"mo_coeff": [jnp.array(Cs[0]), jnp.array(Cs[1])]}
        prop = propagation.propagator_unrestricted(dt=dt, n_walkers=nw)
    ham = hamiltonian.hamiltonian(norb)
    hd = trials.ham_data_of(h0, h1, chol)
    shape = (2, 1, 2)
    smp = sampling.sampler(n_prop_steps=shape[0], n_ene_blocks=shape[1], n_sr_blocks=shape[2], n_blocks=nblocks)
    options = {"dt": dt, "n_walkers": nw, "n_prop_steps": shape[0], "n_ene_blocks": shape[1], "n_sr_blocks": shape[2], "n_blocks": nblocks,
               "n_ene_blocks_eql": 1, "n_sr_blocks_eql": 1, "n_eql": 2, "seed": seed % 65521, "ad_mode": ad_mode, "orbital_rotation": rot, "do_sr": do_sr,
               "walker_type": wt, "symmetry": False, "save_walkers": False, "trial": kind, "ene0": 0.0, "free_projection": False, "n_batch": 1}
    buf = io.StringIO()
    with contextlib.redirect_stdout(buf):
        e, err = driver.afqmc(hd, ham, prop, trial, wd, smp, None, options, config.not_MPI())
    rows = np.loadtxt("samples_raw.dat").reshape(-1, 3)
    return e, err, rows
