import sys

from vlib import monitor

if __name__ == "__main__":
    monitor.main(sys.argv[1:])
