"""Shared case construction for the measurement checks (C01-C03, C13-C15): a trial, its Fock
vector, a Hamiltonian with its intermediates built through the public path, walkers, and the
reference values <psi|phi>, <psi|H|phi>/<psi|phi>, <psi|L_g|phi>/<psi|phi>."""
import numpy as np

from vlib import fockref, trials


def sectors(norb, kind, include_empty_dn=True):
    out = []
    for na in range(1, norb + 1):
        for nb in range(0, na + 1):
            if kind in ("rhf",) + trials.RESTRICTED_ONLY and na != nb:
                continue
            if kind in trials.RESTRICTED_ONLY + ("UCISD", "ucisd", "GCISD") and na == norb:
                continue  # no virtual orbital: CI amplitudes would be empty
            if kind in ("UCISD", "ucisd") and nb == norb:
                continue
            if nb == 0 and not include_empty_dn:
                continue
            if nb == 0 and kind in ("multislater",) + trials.AD_CI:
                continue  # outside the quantifier (those kinds refuse / are not defined there)
            out.append((na, nb))
    return out


def cond_filter(kind, t, wu, wd):
    """Condition number of the matrix the kind's Green's function inverts (1 if none)."""
    na, nb = wu.shape[1], wd.shape[1]

    def c(m):
        if m.shape[0] == 0 or m.shape[1] == 0:
            return 1.0
        return float(np.linalg.cond(m))

    if kind == "multislater":
        ra = np.nonzero(np.asarray(t["ref"][0]))[0]
        rb = np.nonzero(np.asarray(t["ref"][1]))[0]
        return max(c(wu[ra]), c(wd[rb]))
    if kind in ("CISD", "cisd", "cisd_faster", "CISD_THC"):
        return c(wu[:na])
    if kind in ("UCISD", "ucisd"):
        wdb = t["mo_b"].T @ wd
        return max(c(wu[:na]), c(wdb[:nb]))
    if kind == "GCISD":
        n = wu.shape[0]
        w = np.zeros((2 * n, na + nb), dtype=complex)
        w[:n, :na] = wu
        w[n:, na:] = wd
        w = np.asarray(t["wave_data"]["mo_coeff"]).T @ w
        return c(w[: na + nb])
    return 1.0


def build_ham(rng, norb, nchol, kind, entry, scale=1.0):
    """Spin-dependent h1 only for the spin-unrestricted kinds on unrestricted walkers."""
    spin_dep = (kind in trials.SPIN_DEP_H1) and entry == "u"
    return trials.rand_ham(rng, norb, nchol, spin_dep=spin_dep, scale=scale)


def intermediates(t, h0, h1, chol):
    from ad_afqmc import hamiltonian

    ham = hamiltonian.hamiltonian(t["norb"])
    hd = trials.ham_data_of(h0, h1, chol)
    return ham.build_measurement_intermediates(hd, t["trial"], t["wave_data"])


def ham_scale(h0, h1, chol):
    n = h1.shape[-1]
    c = np.asarray(chol).reshape(-1, n, n)
    return abs(h0) + np.linalg.norm(h1[0], 2) + np.linalg.norm(h1[1], 2) + sum(np.linalg.norm(x, 2) ** 2 for x in c)


def ref_values(F, psi, phi, H=None, chol=None):
    ov = np.vdot(psi, phi)
    out = {"ovlp": ov, "nrm": np.linalg.norm(psi) * np.linalg.norm(phi)}
    if H is not None:
        out["ene"] = np.vdot(psi, H @ phi) / ov
    if chol is not None:
        n = F.norb
        out["fb"] = np.array([np.vdot(psi, F.onebody(c.reshape(n, n)) @ phi) / ov for c in chol])
    return out
