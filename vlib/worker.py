import os
import sys

from vlib import monitor

if __name__ == "__main__":
    cov = None
    if os.environ.get("VERIF_COVERAGE_DIR"):
        # development aid (tools/library_coverage.sh): which library lines do the workloads reach?  never used by a registered check
        import coverage

        repo = os.environ.get("VERIF_REPO", "/repo")
        cov = coverage.Coverage(data_file=os.path.join(os.environ["VERIF_COVERAGE_DIR"], ".coverage"), data_suffix=True,
                                source=[os.path.join(repo, "ad_afqmc")])
        cov.start()
    try:
        monitor.worker_main(sys.argv[1], sys.argv[2], sys.argv[3])
    finally:
        if cov is not None:
            cov.stop()
            cov.save()
