import sys

from vlib import monitor

if __name__ == "__main__":
    monitor.worker_main(sys.argv[1], sys.argv[2], sys.argv[3])
