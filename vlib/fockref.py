"""R1 - Fock-space reference model (NumPy/SciPy only, shares no formula with ad_afqmc).

Spin-orbital k = p for (p, up) and norb + p for (p, dn), i.e. "all alpha, then all beta".  A basis
state is a bit mask; a+_k |n> = (-1)^{#occupied below k} |n + k>.  With this rule the
occupation-number determinant "alpha string x beta string"
    prod_{p in occ_up, ascending} a+_{p,up}  prod_{q in occ_dn, ascending} a+_{q,dn} |0>
is exactly +|mask>.

Everything is built literally in second quantisation from sparse creation / annihilation
matrices: Slater determinants as ordered products of orbital creation operators, Hamiltonians
from their operator definition, CI states from their excitation-operator definition.
"""
import itertools

import numpy as np
import scipy.linalg
import scipy.sparse as sp


class Fock:
    def __init__(self, norb):
        self.norb = norb
        self.nso = 2 * norb
        self.dim = 1 << self.nso
        self.cre = [self._cre(k) for k in range(self.nso)]
        self.ann = [c.T.tocsr() for c in self.cre]
        self._ada = {}

    def _cre(self, k):
        rows, cols, vals = [], [], []
        bit = 1 << k
        low = bit - 1
        for n in range(self.dim):
            if n & bit:
                continue
            sign = -1.0 if bin(n & low).count("1") % 2 else 1.0
            rows.append(n | bit)
            cols.append(n)
            vals.append(sign)
        return sp.csr_matrix((vals, (rows, cols)), shape=(self.dim, self.dim))

    # ---------------------------------------------------------------- operators
    def ada(self, k, l):
        """a+_k a_l (spin-orbital indices)."""
        key = (k, l)
        if key not in self._ada:
            self._ada[key] = (self.cre[k] @ self.ann[l]).tocsr()
        return self._ada[key]

    def so(self, p, s):
        return p + s * self.norb

    def vac(self):
        v = np.zeros(self.dim, dtype=complex)
        v[0] = 1.0
        return v

    def orb_cre(self, coeffs):
        """sum_k coeffs[k] a+_k for a spin-orbital coefficient vector of length 2*norb."""
        op = sp.csr_matrix((self.dim, self.dim), dtype=complex)
        for k, c in enumerate(coeffs):
            if c != 0:
                op = op + c * self.cre[k]
        return op

    def onebody(self, ma, mb=None):
        """sum_pq ma_pq a+_pu a_qu + mb_pq a+_pd a_qd (mb defaults to ma)."""
        if mb is None:
            mb = ma
        n = self.norb
        op = sp.csr_matrix((self.dim, self.dim), dtype=complex)
        for p in range(n):
            for q in range(n):
                if ma[p, q] != 0:
                    op = op + ma[p, q] * self.ada(p, q)
                if mb[p, q] != 0:
                    op = op + mb[p, q] * self.ada(n + p, n + q)
        return op

    def onebody_general(self, m):
        """sum_PQ m_PQ a+_P a_Q over all 2*norb spin orbitals."""
        op = sp.csr_matrix((self.dim, self.dim), dtype=complex)
        for p in range(self.nso):
            for q in range(self.nso):
                if m[p, q] != 0:
                    op = op + m[p, q] * self.ada(p, q)
        return op

    def hamiltonian(self, h0, h1a, h1b, chol):
        """H = h0 + sum h1[s] a+a + 1/2 sum_g sum_pqrs,st L_pq L_rs a+_ps a+_rt a_st a_qs.

        Uses a+_p a+_r a_s a_q = (a+_p a_q)(a+_r a_s) - delta_qr a+_p a_s, so the two-body part is
        1/2 sum_g ( L_g^2 - onebody(L_g @ L_g) ) with L_g the one-body operator of the matrix."""
        n = self.norb
        chol = np.asarray(chol).reshape(-1, n, n)
        H = h0 * sp.identity(self.dim, dtype=complex, format="csr") + self.onebody(
            np.asarray(h1a), np.asarray(h1b)
        )
        for L in chol:
            Lop = self.onebody(L)
            H = H + 0.5 * (Lop @ Lop - self.onebody(L @ L))
        return H.tocsr()

    def number_ops(self):
        n = self.norb
        return [self.ada(i, i) for i in range(n)], [self.ada(n + i, n + i) for i in range(n)]

    # ------------------------------------------------------------------- states
    def product_state(self, cols):
        """c_1+ c_2+ ... c_m+ |0> for spin-orbital coefficient vectors c_k (in that order)."""
        v = self.vac()
        for c in reversed(cols):
            v = self.orb_cre(c) @ v
        return v

    def det(self, up, dn):
        """|phi> = prod_k (sum_p up[p,k] a+_pu) prod_k (sum_p dn[p,k] a+_pd) |0>."""
        n = self.norb
        up = np.asarray(up, dtype=complex).reshape(n, -1)
        dn = np.asarray(dn, dtype=complex).reshape(n, -1)
        cols = []
        for k in range(up.shape[1]):
            c = np.zeros(self.nso, dtype=complex)
            c[:n] = up[:, k]
            cols.append(c)
        for k in range(dn.shape[1]):
            c = np.zeros(self.nso, dtype=complex)
            c[n:] = dn[:, k]
            cols.append(c)
        return self.product_state(cols)

    def gdet(self, mo):
        """GHF determinant: columns of mo (2*norb x nelec) are spin orbitals."""
        mo = np.asarray(mo, dtype=complex)
        return self.product_state([mo[:, k] for k in range(mo.shape[1])])

    def occ_state(self, occ_a, occ_b):
        """alpha-string x beta-string occupation determinant (sign +1 on the bit mask)."""
        mask = 0
        for p in occ_a:
            mask |= 1 << p
        for q in occ_b:
            mask |= 1 << (self.norb + q)
        v = np.zeros(self.dim, dtype=complex)
        v[mask] = 1.0
        return v

    def ci_state(self, state_dict):
        """sum_i c_i |D_i>, keys = ((occupation tuple up), (occupation tuple dn)) of 0/1."""
        v = np.zeros(self.dim, dtype=complex)
        for (da, db), c in state_dict.items():
            oa = [i for i, x in enumerate(da) if x]
            ob = [i for i, x in enumerate(db) if x]
            v = v + c * self.occ_state(oa, ob)
        return v

    def sector_indices(self, na, nb):
        n = self.norb
        idx = []
        for oa in itertools.combinations(range(n), na):
            for ob in itertools.combinations(range(n), nb):
                m = 0
                for p in oa:
                    m |= 1 << p
                for q in ob:
                    m |= 1 << (n + q)
                idx.append(m)
        return np.array(sorted(idx))

    def sector_total(self, ntot):
        return np.array([m for m in range(self.dim) if bin(m).count("1") == ntot])

    # ---------------------------------------------------------------- CI states
    def cisd_restricted(self, nocc, ci1, ci2):
        """(1 + sum_ia c_ia E_ai + 1/2 sum_iajb c_iajb E_ai E_bj)|0>, E_ai = sum_s a+_as a_is,
        |0> = orbitals 0..nocc-1 doubly occupied; ci1[i, a-nocc], ci2[i, a-nocc, j, b-nocc]."""
        n = self.norb
        ref = self.occ_state(range(nocc), range(nocc))
        E = {}
        for i in range(nocc):
            for a in range(nocc, n):
                E[(a, i)] = self.ada(a, i) + self.ada(n + a, n + i)
        v = ref.copy()
        for i in range(nocc):
            for a in range(nocc, n):
                v = v + ci1[i, a - nocc] * (E[(a, i)] @ ref)
        for i in range(nocc):
            for a in range(nocc, n):
                Eai = E[(a, i)]
                for j in range(nocc):
                    for b in range(nocc, n):
                        c = ci2[i, a - nocc, j, b - nocc]
                        if c != 0:
                            v = v + 0.5 * c * (Eai @ (E[(b, j)] @ ref))
        return v

    def ucisd(self, nocc_a, nocc_b, ci1a, ci1b, ci2aa, ci2ab, ci2bb, mo_b=None):
        """(1 + c1A + c1B + 1/4 c2AA + 1/4 c2BB + c2AB)|ref>.

        alpha orbitals are the basis orbitals; beta orbitals are the columns of mo_b (identity if
        None); reference: first nocc_s orbitals of each spin.  c2XX = sum c_iajb a+_a a+_b a_j a_i,
        c2AB = sum c_iajb a+_{a,up} a+_{b,dn} a_{j,dn} a_{i,up}."""
        n = self.norb
        if mo_b is None:
            mo_b = np.eye(n)
        mo_b = np.asarray(mo_b)
        # creation / annihilation operators of the two orbital sets
        ca = [self.cre[p] for p in range(n)]
        aa = [self.ann[p] for p in range(n)]
        cb, ab = [], []
        for k in range(n):
            coeff = np.zeros(self.nso, dtype=complex)
            coeff[n:] = mo_b[:, k]
            op = self.orb_cre(coeff)
            cb.append(op)
            ab.append(op.conj().T.tocsr())
        ref_cols = []
        for k in range(nocc_a):
            c = np.zeros(self.nso, dtype=complex)
            c[k] = 1.0
            ref_cols.append(c)
        for k in range(nocc_b):
            c = np.zeros(self.nso, dtype=complex)
            c[n:] = mo_b[:, k]
            ref_cols.append(c)
        ref = self.product_state(ref_cols)
        v = ref.copy()
        for i in range(nocc_a):
            for a in range(nocc_a, n):
                v = v + ci1a[i, a - nocc_a] * (ca[a] @ (aa[i] @ ref))
        for i in range(nocc_b):
            for a in range(nocc_b, n):
                v = v + ci1b[i, a - nocc_b] * (cb[a] @ (ab[i] @ ref))
        for i in range(nocc_a):
            for a in range(nocc_a, n):
                for j in range(nocc_a):
                    for b in range(nocc_a, n):
                        c = ci2aa[i, a - nocc_a, j, b - nocc_a]
                        if c != 0:
                            v = v + 0.25 * c * (ca[a] @ (ca[b] @ (aa[j] @ (aa[i] @ ref))))
        for i in range(nocc_b):
            for a in range(nocc_b, n):
                for j in range(nocc_b):
                    for b in range(nocc_b, n):
                        c = ci2bb[i, a - nocc_b, j, b - nocc_b]
                        if c != 0:
                            v = v + 0.25 * c * (cb[a] @ (cb[b] @ (ab[j] @ (ab[i] @ ref))))
        for i in range(nocc_a):
            for a in range(nocc_a, n):
                for j in range(nocc_b):
                    for b in range(nocc_b, n):
                        c = ci2ab[i, a - nocc_a, j, b - nocc_b]
                        if c != 0:
                            v = v + c * (ca[a] @ (cb[b] @ (ab[j] @ (aa[i] @ ref))))
        return v

    def gcisd(self, nocc, ci1, ci2, mo):
        """(1 + sum c_ia a+_a a_i + 1/4 sum c_iajb a+_a a+_b a_j a_i)|ref> in the spin-orbital
        basis given by the columns of mo (2norb x 2norb); reference = first nocc columns."""
        m = self.nso
        mo = np.asarray(mo, dtype=complex)
        c_ops = [self.orb_cre(mo[:, k]) for k in range(m)]
        a_ops = [c.conj().T.tocsr() for c in c_ops]
        ref = self.product_state([mo[:, k] for k in range(nocc)])
        v = ref.copy()
        for i in range(nocc):
            for a in range(nocc, m):
                v = v + ci1[i, a - nocc] * (c_ops[a] @ (a_ops[i] @ ref))
        for i in range(nocc):
            for a in range(nocc, m):
                for j in range(nocc):
                    for b in range(nocc, m):
                        c = ci2[i, a - nocc, j, b - nocc]
                        if c != 0:
                            v = v + 0.25 * c * (
                                c_ops[a] @ (c_ops[b] @ (a_ops[j] @ (a_ops[i] @ ref)))
                            )
        return v

    # ------------------------------------------------------------- expectation
    def rdm1(self, psi):
        """<psi|a+_ps a_qs|psi>/<psi|psi> as (2, norb, norb)."""
        n = self.norb
        nrm = np.vdot(psi, psi)
        out = np.zeros((2, n, n), dtype=complex)
        for s in range(2):
            for p in range(n):
                for q in range(n):
                    out[s, p, q] = np.vdot(psi, self.ada(self.so(p, s), self.so(q, s)) @ psi) / nrm
        return out

    def expm_apply(self, H, v, t, idx=None):
        """exp(-t H) v, dense exponential inside the sector spanned by idx (default: support
        closure by particle number of v)."""
        if idx is None:
            nz = np.nonzero(np.abs(v) > 0)[0]
            counts = set()
            n = self.norb
            low = (1 << n) - 1
            for m in nz:
                counts.add((bin(m & low).count("1"), bin(m >> n).count("1")))
            tot = set(a + b for a, b in counts)
            idx = np.array([m for m in range(self.dim) if bin(m).count("1") in tot])
        Hs = H[idx][:, idx].toarray()
        out = np.zeros_like(v, dtype=complex)
        out[idx] = scipy.linalg.expm(-t * Hs) @ v[idx]
        return out

    def eig_sector(self, H, na, nb):
        idx = self.sector_indices(na, nb)
        Hs = H[idx][:, idx].toarray()
        w, u = np.linalg.eigh((Hs + Hs.conj().T) / 2)
        return w, u, idx


_cache = {}


def get(norb):
    if norb not in _cache:
        _cache[norb] = Fock(norb)
    return _cache[norb]


def selftest():
    """Cross-validate the model against pyscf FCI on a random Hamiltonian (returns max error)."""
    from pyscf import fci

    rng = np.random.default_rng(5)
    n, na, nb = 4, 2, 1
    h1 = rng.normal(size=(n, n))
    h1 = h1 + h1.T
    chol = rng.normal(size=(3, n, n)) * 0.5
    chol = chol + chol.transpose(0, 2, 1)
    eri = np.einsum("gpq,grs->pqrs", chol, chol)
    F = get(n)
    H = F.hamiltonian(0.3, h1, h1, chol)
    w, u, idx = F.eig_sector(H, na, nb)
    e, c = fci.direct_spin1.kernel(h1, eri, n, (na, nb), ecore=0.3, nroots=1)
    # compare the eigenvector in the alpha-string x beta-string convention
    state = {}
    strs_a = list(itertools.combinations(range(n), na))
    strs_b = list(itertools.combinations(range(n), nb))
    from pyscf.fci import cistring

    sa = cistring.make_strings(range(n), na)
    sb = cistring.make_strings(range(n), nb)
    v = np.zeros(F.dim, dtype=complex)
    for ia, a in enumerate(sa):
        for ib, b in enumerate(sb):
            oa = [k for k in range(n) if (int(a) >> k) & 1]
            ob = [k for k in range(n) if (int(b) >> k) & 1]
            v += c[ia, ib] * F.occ_state(oa, ob)
    res = np.linalg.norm(H @ v - e * v)
    return max(abs(w[0] - e), res)
