#!/bin/bash
# Self-validation helper (not a registered check):  ./run_mutant.sh <patch-file> <check-id> [tier] [more check ids...]
# copies /repo's working tree to a scratch directory outside /repo and /verif, applies the patch,
# runs the named quick checks with VERIF_REPO pointing at the copy, prints their exit codes,
# removes the copy.
patch="$(realpath "$1")"; shift
tier=quick
ids=()
for a in "$@"; do
  case "$a" in quick|thorough) tier="$a";; *) ids+=("$a");; esac
done
scratch=$(mktemp -d /tmp/verif_mut_XXXXXX)
rsync -a --exclude .git /repo/ "$scratch/"
if ! (cd "$scratch" && patch -p1 --no-backup-if-mismatch -s < "$patch"); then
  echo "MUTANT $patch: patch does not apply"; rm -rf "$scratch"; exit 3
fi
rc_all=0
for id in "${ids[@]}"; do
  out=$(cd /verif && VERIF_REPO="$scratch" VERIF_NO_EVIDENCE=1 ./vcheck "$id" "$tier" 2>&1)
  rc=$?
  echo "MUTANT $(basename "$patch") check=$id tier=$tier exit=$rc"
  echo "$out" | grep -E "^(VIOLATION|INCONCLUSIVE|KNOWN-FINDING|  # key)" | head -6
  [ $rc -ne 1 ] && rc_all=1
done
rm -rf "$scratch"
exit $rc_all
