#!/bin/bash
SWEEP_IDS="14" ./tools/sweep.sh thorough 0 1
SWEEP_IDS="14" ./tools/sweep.sh quick 0 1 2 3 7
