#!/bin/bash
# ./tools/run_all_seeded_par.sh [P]  - like run_all_seeded.sh, P seeds at a time (default 3); summary in /tmp/verif_seeded_summary.txt
P=${1:-3}
out=/tmp/verif_seeded_summary.txt
: > $out
ls -d /verif/seeded/*/ | xargs -P $P -I{} bash -c '
  d={}; n=$(basename $d)
  p=$(python3 -c "import json;print(json.load(open(\"$d/meta.json\"))[\"property\"])")
  r=$(/verif/tools/run_seeded.sh $n $p 2>&1 | grep -E "^MUTANT" | head -1)
  echo "$n $r" >> /tmp/verif_seeded_summary.txt'
echo DONE >> $out
