#!/bin/bash
# runs every seeded change against the quick check of its own property (sequentially); summary in /tmp/verif_seeded_summary.txt
out=/tmp/verif_seeded_summary.txt
: > $out
for d in /verif/seeded/*/; do
  n=$(basename $d)
  p=$(python3 -c "import json;print(json.load(open('$d/meta.json'))['property'])")
  r=$(/verif/tools/run_seeded.sh $n $p 2>&1 | grep -E "^MUTANT" | head -1)
  echo "$n $r" >> $out
done
