#!/bin/bash
# ./tools/sweep.sh <tier> <seeds...>   - runs every check for each seed, prints one status line per run
tier=$1; shift
for s in "$@"; do
  for i in ${SWEEP_IDS:-01 02 03 04 05 06 07 08 09 10 11 12 13 14 15 16 17 18 19 20}; do
    t0=$(date +%s)
    out=$(VERIF_SEED=$s VERIF_NO_EVIDENCE=1 ./vcheck C$i $tier 2>&1); rc=$?
    t1=$(date +%s)
    echo "SWEEP seed=$s C$i tier=$tier exit=$rc wall=$((t1-t0))s $(echo "$out" | grep -E "^C$i " | head -1 | sed 's/.*cases=/cases=/')"
    if [ $rc -ne 0 ]; then echo "$out" | grep -E "VIOLATION|INCONCLUSIVE|# key" | head -6; fi
  done
done
