#!/bin/bash
# runs every mutants/*.patch against its owner checks and writes mutants/RESULTS.json
cd /verif
declare -A OWN=(
 [revert_D1_tracer_dispatch]="C04 C14" [revert_D2_rhf_energy_unrestricted]="C02" [revert_D3D4_multislater]="C01 C11" [revert_D4_multislater_restricted_ref]="C01"
 [revert_D5_same_spin_green]="C10" [revert_D6_cpmc_bare_onebody]="C10" [revert_D7_nosr_norot_trial_arg]="C12 C08" [revert_D8_cholesky_last_vector]="C17"
 [revert_D9a_grid_ly2_ctor]="C20" [revert_D9b_lattice_roundtrip]="C20" [revert_D10ab_cpmc_nan]="C09" [revert_D10b_cpmc_extinct_nan]="C09"
 [revert_D11_openshell_init_refusal]="C13" [revert_D12_rhf_rdm1_conj]="C01 C13" [c07_noabs_jit]="C07" [c07_mpi_uhf_dn_old_buffer]="C07" [c08_no_refresh_after_sr]="C08" [c08_no_refresh_after_qr]="C08" [fp_driver_key_reuse]="C05" [fp_driver_unweighted_mean]="C05")
tmp=$(mktemp)
echo "{" > $tmp
first=1
for f in mutants/*.patch; do
  n=$(basename $f .patch)
  ids=${OWN[$n]}
  [ -z "$ids" ] && continue
  out=$(./run_mutant.sh $f $ids 2>&1)
  exits=$(echo "$out" | grep -E "^MUTANT" | sed -E 's/.*check=(C[0-9]+) .*exit=([0-9]+).*/"\1": \2/' | paste -sd, -)
  key=$(echo "$out" | grep -m1 -oE "# key=[^ ]+" | sed 's/# key=//')
  [ $first -eq 0 ] && echo "," >> $tmp
  first=0
  echo " \"$n\": {\"property\": \"$(echo $ids | cut -d' ' -f1)\", \"what\": \"$(echo $n | sed 's/_/ /g')\", \"exits\": {$exits}, \"key\": \"$key\"}" >> $tmp
  echo "$n -> $exits"
done
echo "}" >> $tmp
python3 -c "import json,sys; d=json.load(open('$tmp')); json.dump(d, open('/verif/mutants/RESULTS.json','w'), indent=1); print(len(d),'mutants')"
rm -f $tmp
