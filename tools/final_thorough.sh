#!/bin/bash
# thorough seed 0 for every check, then thorough seed 1 for the checks edited last
./tools/sweep.sh thorough 0
SWEEP_IDS="01 03 05 06 08 11 13 14 16 18" ./tools/sweep.sh thorough 1
