#!/bin/bash
# ./tools/collect_seed.sh <worktree> <name>   - verify an independently written property-breaking change and file it
# under /verif/seeded/<name>/ (patch.diff, demo.py, meta.json); removes the worktree afterwards.
wt="$1"; name="$2"
dst=/verif/seeded/$name
mkdir -p "$dst"
cp "$wt/_seed/patch.diff" "$wt/_seed/demo.py" "$dst/" || exit 2
cp "$wt/_seed/meta.json" "$dst/meta.agent.json" 2>/dev/null
for f in "$wt"/_seed/*; do b=$(basename "$f"); case "$b" in patch.diff|demo.py|meta.json|__pycache__) ;; *) cp -r "$f" "$dst/" ;; esac; done
scratch=$(mktemp -d /tmp/verif_seed_XXXXXX)
git -C /repo archive HEAD | tar -x -C "$scratch"
cd "$scratch"
REPO_UNDER_TEST="$scratch" timeout 1800 /venv/bin/python "$dst/demo.py" > "$scratch/demo_clean.log" 2>&1; rc_clean=$?
git apply "$dst/patch.diff" 2> "$scratch/apply.log"; rc_apply=$?
REPO_UNDER_TEST="$scratch" timeout 1800 /venv/bin/python "$dst/demo.py" > "$scratch/demo_patched.log" 2>&1; rc_patched=$?
timeout 2400 /venv/bin/python -m pytest -q -p no:cacheprovider --timeout=900 tests > "$scratch/tests.log" 2>&1; rc_tests=$?
tests_line=$(tail -1 "$scratch/tests.log")
python3 - "$dst" "$rc_clean" "$rc_apply" "$rc_patched" "$rc_tests" "$tests_line" "$(git -C /repo rev-parse HEAD)" <<'PY'
import json, sys
dst, rc_clean, rc_apply, rc_patched, rc_tests, tests_line, head = sys.argv[1:8]
try:
    agent = json.load(open(dst + "/meta.agent.json"))
except Exception:
    agent = {}
meta = {"property": agent.get("property"), "summary": agent.get("summary"), "needs": agent.get("needs"),
        "files": agent.get("files"), "base_commit": head,
        "confirmed_by_me": {"patch_applies": rc_apply == "0", "demo_exit_clean_tree": int(rc_clean),
                            "demo_exit_patched_tree": int(rc_patched), "existing_tests_exit_patched_tree": int(rc_tests),
                            "existing_tests_summary": tests_line,
                            "how": "git archive HEAD -> scratch; demo.py; git apply patch.diff; demo.py; pytest tests"},
        "caught_by": []}
json.dump(meta, open(dst + "/meta.json", "w"), indent=1)
print(json.dumps(meta["confirmed_by_me"]))
PY
rm -f "$dst/meta.agent.json"
cd /; rm -rf "$scratch"
git -C /repo worktree remove --force "$wt" 2>/dev/null
