#!/bin/bash
# ./tools/library_coverage.sh [check ids...]   - development aid: line coverage of /repo/ad_afqmc reached by the quick checks
# (trace-time execution of jitted code counts). Output: /tmp/verif_cov/report.txt
d=/tmp/verif_cov; rm -rf $d; mkdir -p $d
ids=("$@"); [ ${#ids[@]} -eq 0 ] && ids=(C01 C02 C03 C04 C05 C06 C07 C08 C09 C10 C11 C12 C13 C14 C15 C16 C17 C18 C19 C20)
for i in "${ids[@]}"; do VERIF_COVERAGE_DIR=$d VERIF_NO_EVIDENCE=1 /verif/vcheck $i quick > $d/$i.log 2>&1; echo "$i exit=$?"; done
cd $d && /venv/bin/python -m coverage combine -q --data-file=$d/.coverage $d >/dev/null 2>&1
/venv/bin/python -m coverage report --data-file=$d/.coverage -m > $d/report.txt 2>&1; tail -20 $d/report.txt
