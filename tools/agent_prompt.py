#!/usr/bin/env python3
"""Prints the prompt given to a fresh sub-agent for one property (only the property text + its worktree)."""
import json, sys
pid = sys.argv[1]
wt = sys.argv[2]
variant = sys.argv[3] if len(sys.argv) > 3 else ""
p = [json.loads(l) for l in open("/verif/properties.jsonl") if json.loads(l)["id"] == pid][0]
print(f"""You are helping test a verification effort for the Python library ankit76/ad_afqmc (JAX implementation of phaseless / free-projection AFQMC and CPMC quantum Monte Carlo). You have your own scratch git worktree of the repository at {wt} (work ONLY there; never touch /repo or /verif, and do not read anything under /verif). Python interpreter: /venv/bin/python (the package is imported by putting the worktree on sys.path / PYTHONPATH; it is not installed). There is no network. libmpi is absent: in any script set `from ad_afqmc import config; config.afqmc_config["use_mpi"] = False; config.setup_jax()` before importing other ad_afqmc modules (and never import mpi4py).

Here is a semantic property of the library that should hold for every input / configuration / history:

  id: {p['id']}
  title: {p['title']}
  statement: {p['statement']}
  quantifier: {p['quantifier']['text']}
  code anchors: {json.dumps(p['anchors']['files'])}; mechanisms: {json.dumps([m['name'] for m in p['anchors']['mechanism']])}

YOUR TASK: produce ONE realistic change (a bug a maintainer could plausibly introduce: a refactor slip, an 'optimisation', a wrong index/sign/factor in a rarely used branch, a missing refresh, etc.) to the library source in your worktree that BREAKS this property while the code still imports/compiles and the existing test suite still passes. {variant}
Requirements:
 1. The change must need something specific to manifest - a particular configuration, an unusual input (e.g. open shell, non-default option, particular batch count, special walker/weights, degenerate values), a multi-step sequence of operations, or two cooperating sites that each look fine alone. NOT something ordinary use would expose at once, and not something every test input shows (the existing tests must still pass).
 2. Confirm the existing tests still pass with your change:  cd {wt} && /venv/bin/python -m pytest -q -p no:cacheprovider --timeout=900 tests   (takes about 1-2 minutes; 41 tests pass on the unchanged tree).
 3. Write a demonstration script {wt}/_seed/demo.py (standalone; inserts its repo path from the environment variable REPO_UNDER_TEST, default {wt}, at the front of sys.path) that exits 0 on the unchanged tree and exits non-zero (assertion failure) with your change - showing the property is really violated (compare against an independent computation, not against a hard-coded number you got from the library).
 4. Save your change as {wt}/_seed/patch.diff (output of `git -C {wt} diff -- ad_afqmc` BEFORE adding _seed files; it must apply with `git apply` to a clean checkout of the same commit), and {wt}/_seed/meta.json with keys: property, summary (what was changed), needs (what is required for it to manifest), files.
 5. Verify: with the patch applied demo.py fails; after `git -C {wt} stash` / checkout of ad_afqmc it passes. Leave the worktree with the patch APPLIED at the end.
Keep the change small (a few lines). Do not modify tests. Report back in a few lines: what you changed, what it needs to manifest, and the results of steps 2 and 5.""")
