#!/usr/bin/env python3
"""Rewrites the block between <!-- CATCH-TABLE:BEGIN --> and <!-- CATCH-TABLE:END --> in DESIGN.md from seeded/*/meta.json and mutants/RESULTS.json."""
import glob, json, os, re
V = os.path.dirname(os.path.dirname(os.path.abspath(__file__)))
rows = ["| change | property | what it does / what it needs | caught by (quick tier) | first violation key |", "|---|---|---|---|---|"]
for d in sorted(glob.glob(os.path.join(V, "seeded", "*"))):
    if not os.path.exists(os.path.join(d, "meta.json")):
        continue
    m = json.load(open(os.path.join(d, "meta.json")))
    cb = [c for c in m.get("caught_by", []) if isinstance(c, dict)]
    caught = ", ".join("%s%s" % (c["check"], "" if c["caught"] else " (missed)") for c in cb) or "not run yet"
    keys = "; ".join(sorted({k for c in cb for k in c.get("keys", [])})[:2])
    summ = (m.get("summary") or "").replace("|", "/").replace("\n", " ")
    needs = (m.get("needs") or "")
    if isinstance(needs, list):
        needs = "; ".join(map(str, needs))
    needs = str(needs).replace("|", "/").replace("\n", " ")
    rows.append("| seeded/%s | %s | %s **Needs:** %s | %s | `%s` |" % (os.path.basename(d), m.get("property"), summ[:260], needs[:220], caught, keys[:140]))
res = os.path.join(V, "mutants", "RESULTS.json")
if os.path.exists(res):
    for name, r in sorted(json.load(open(res)).items()):
        rows.append("| mutants/%s | %s | %s | %s | `%s` |" % (name, r.get("property", ""), r.get("what", ""), ", ".join("%s%s" % (k, "" if v == 1 else " (exit %s)" % v) for k, v in r.get("exits", {}).items()), (r.get("key") or "")[:140]))
p = os.path.join(V, "DESIGN.md")
s = open(p).read()
block = "<!-- CATCH-TABLE:BEGIN -->\n" + "\n".join(rows) + "\n<!-- CATCH-TABLE:END -->"
s = re.sub(r"<!-- CATCH-TABLE:BEGIN -->.*?<!-- CATCH-TABLE:END -->", lambda _: block, s, flags=re.S)
open(p, "w").write(s)
print(len(rows) - 2, "rows")
