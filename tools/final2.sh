#!/bin/bash
./tools/sweep.sh quick 1
SWEEP_IDS="14 18 08 11" ./tools/sweep.sh thorough 3
./tools/sweep.sh quick 2
