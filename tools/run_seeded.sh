#!/bin/bash
# ./tools/run_seeded.sh <name> [check ids...]  - run the quick checks against a seeded change and record who catches it
name="$1"; shift
d=/verif/seeded/$name
ids=("$@")
if [ ${#ids[@]} -eq 0 ]; then ids=($(python3 -c "import json;print(json.load(open('$d/meta.json'))['property'])")); fi
out=$(/verif/run_mutant.sh "$d/patch.diff" "${ids[@]}" 2>&1)
echo "$out"
python3 - "$d" "$out" <<'PY'
import json, re, sys
d, out = sys.argv[1], sys.argv[2]
m = json.load(open(d + "/meta.json"))
res = {}
for line in out.splitlines():
    g = re.match(r"MUTANT \S+ check=(\S+) tier=(\S+) exit=(\d+)", line)
    if g:
        res[g.group(1)] = {"tier": g.group(2), "exit": int(g.group(3))}
keys = sorted(set(re.findall(r"# key=(\S+)", out)))
prev = {c["check"]: c for c in m.get("caught_by", []) if isinstance(c, dict)}
for k, v in res.items():
    prev[k] = {"check": k, "tier": v["tier"], "exit": v["exit"], "caught": v["exit"] == 1, "keys": keys[:6]}
m["caught_by"] = list(prev.values())
json.dump(m, open(d + "/meta.json", "w"), indent=1)
PY
