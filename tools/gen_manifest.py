#!/usr/bin/env python3
"""Regenerates MANIFEST.json from the checks that exist in checks/ (run after adding a check)."""
import glob
import importlib
import json
import os
import subprocess
import sys

VERIF = os.path.dirname(os.path.dirname(os.path.abspath(__file__)))
sys.path.insert(0, VERIF)

props = [json.loads(l) for l in open(os.path.join(VERIF, "properties.jsonl"))]
hook_commits = subprocess.run(
    ["git", "-C", "/repo", "log", "--format=%H", "--grep=^verif hooks"], capture_output=True, text=True
).stdout.split()

checks = []
not_applicable = []
for p in props:
    pid = p["id"]
    path = os.path.join(VERIF, "checks", pid.lower() + ".py")
    if not os.path.exists(path):
        not_applicable.append({"property_id": pid, "reason": "check not built yet in this round (planned: DESIGN.md section 3 " + pid + ")"})
        continue
    src = open(path).read()
    meta = {}
    mod_globals = {}
    # read the module-level MANIFEST dict without importing jax etc.
    import ast

    tree = ast.parse(src)
    for node in tree.body:
        if isinstance(node, ast.Assign) and len(node.targets) == 1 and getattr(node.targets[0], "id", None) in ("LEVEL_TEXT", "LEVEL_NOTE", "TECHNIQUE"):
            meta[node.targets[0].id] = ast.literal_eval(node.value)
    checks.append({
        "property_id": pid,
        "quick_cmd": "./vcheck %s quick" % pid,
        "thorough_cmd": "./vcheck %s thorough" % pid,
        "evidence_file": "evidence/%s.json" % pid,
        "replay_cmd_template": "./vcheck %s --replay {path}" % pid,
        "engine": "vlib-monitor",
        "level_claimed": {
            "category": "exploration",
            "text": meta.get("LEVEL_TEXT", "reference-model monitor over generated executions of the real code"),
            "design_ref": "DESIGN.md section 3, " + pid,
        },
        "level_note": meta.get("LEVEL_NOTE", "trusted: NumPy/SciPy, the Fock-space reference model (cross-validated against pyscf FCI), the generators' stated input classes"),
        "technique": meta.get("TECHNIQUE", "runtime monitoring: reference-model oracle on recorded call/return events"),
    })

manifest = {
    "version": 1,
    "setup_cmd": "/venv/bin/pip install -q --no-index --find-links /opt/veriftools/wheels --target /verif/.deps icontract deal >/dev/null 2>&1; /venv/bin/python -m compileall -q vlib checks >/dev/null; echo setup-done",
    "hooks": {
        "guard": "ANKIT76_AD_AFQMC_VERIF",
        "enable": "checks import ad_afqmc from /repo's working tree (no build step) with ANKIT76_AD_AFQMC_VERIF=1 exported by ./vcheck; the hooks additionally need pre-seeded prop_data keys",
        "baseline_off_cmd": "cd /repo && env -u ANKIT76_AD_AFQMC_VERIF /venv/bin/python -m pytest -ra -q -p no:cacheprovider --timeout=900 --continue-on-collection-errors",
        "source_commits": hook_commits,
        "add_only": True,
    },
    "engines": [
        {"name": "vlib-monitor", "path": "vlib/monitor.py", "serves_properties": [c["property_id"] for c in checks],
         "kind_free_text": "runtime monitors: independent reference-model oracles (Fock space, quadrature, exhaustive field sums, sequential models) evaluated on executions of the real code in worker subprocesses; three-valued verdicts"}
    ],
    "checks": checks,
    "not_applicable": not_applicable,
    "notes": "exit 0 held / 1 violation (VIOLATION line) / 2 inconclusive (INCONCLUSIVE line); known_findings.json is read-only at run time; VERIF_SEED and VERIF_TIER honoured.",
}
json.dump(manifest, open(os.path.join(VERIF, "MANIFEST.json"), "w"), indent=1)
print("checks:", [c["property_id"] for c in checks], "not_applicable:", len(not_applicable))
